(* C12 - any database written by an earlier release opens, keeps its data and works.
   Statements only; proofs in Proofs/TxProofs.v.

   A database is (schema, rows).  No statement of Cache::new touches a row (CREATE ... IF NOT
   EXISTS, ALTER TABLE ADD COLUMN with NULL / constant default, PRAGMA user_version), so the
   rows - the [db] of Model/CacheDb.v, where an absent claim column reads as "no claim" and an
   absent mark column as "not marked" - are literally unchanged by opening; the theorems are
   about the schema component.  [legal_shape] describes what a release (or nothing) can have
   left behind; a recorded version newer than the known migrations is legal. *)
From Coq Require Import ZArith.
From VL Require Import Lib.Bytes Model.CacheDb Model.CacheTx Proofs.CachePins Proofs.TxProofs Gen.GenCache.

Theorem C12_open_reaches_full :
  forall s, legal_shape s = true ->
  full (open_db s) = true /\ user_version (open_db s) = N.max (user_version s) n_migrations.
Proof. exact open_reaches_full. Qed.

Theorem C12_open_idempotent : forall s, legal_shape s = true -> open_db (open_db s) = open_db s.
Proof. exact open_idempotent. Qed.

(* an open interrupted anywhere (crash, or another process interleaving up to that point) followed by
   a complete open still reaches the full schema: every prefix leaves a state that opens *)
Theorem C12_interrupted_open_recovers :
  forall s n, legal_shape s = true ->
  full (open_db (run_schema (firstn n (open_stmts (user_version s))) s)) = true.
Proof. exact open_crash_then_reopen. Qed.

(* each statement of an open only adds: tables and columns once present stay present (so two opens
   interleaved at statement granularity can only help each other) *)
Theorem C12_statements_monotone :
  forall st s,
  (has_tables s = true -> has_tables (schema_step st s) = true) /\
  (has_fetching s = true -> has_fetching (schema_step st s) = true) /\
  (has_notfound s = true -> has_notfound (schema_step st s) = true).
Proof. exact schema_step_monotone. Qed.

(* the migrations of the source are the two the schema model knows *)
Theorem C12_migrations_modelled : N.of_nat (length migrations) = n_migrations.
Proof. exact migrations_are_modelled. Qed.

(* the shapes: base tables only; + claim column; + both; each with the versions it can carry *)
Example C12_ex_shapes :
  forallb legal_shape [fresh_file; mkSchema true false false 0; mkSchema true true false 0; mkSchema true true false 1;
                       mkSchema true true true 0; mkSchema true true true 1; mkSchema true true true 2; mkSchema true true true 9] = true /\
  legal_shape (mkSchema true false false 2) = false /\
  open_db (mkSchema true true false 1) = mkSchema true true true 2 /\
  open_db (mkSchema true true true 9) = mkSchema true true true 9.
Proof. vm_compute. repeat split. Qed.

Print Assumptions C12_open_reaches_full.
Print Assumptions C12_interrupted_open_recovers.
