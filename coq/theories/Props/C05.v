(* C05 - every reported location is in bounds and covers the dependency's version text.
   Statements only; proofs in Proofs/CstProofs.v and Proofs/JsonWalkProofs.v. *)
From Coq Require Import ZArith.
From VL Require Import Lib.Bytes Lib.Text Lib.Cst Model.Config Model.Walks Model.GoMod Model.DiagRange Spec.JsonDoc
  Proofs.CstProofs Proofs.JsonWalkProofs.

(* structural part, JSON manifests: for ANY document and any tree tree-sitter can produce for it (wf_cst, and
   string tokens span their delimiters), every reported location is non-inverted, inside the document, and its
   line/column is the position of its start offset *)
Theorem C05_package_json_structural :
  forall content root pkgs, wf_cst content root = true -> string_nodes_ok content root = true ->
  walk_package_json content root = Some pkgs -> forall p, In p pkgs -> structural_ok content p.
Proof. exact package_json_structural. Qed.
Theorem C05_deno_json_structural :
  forall content root pkgs, wf_cst content root = true -> string_nodes_ok content root = true ->
  walk_deno_json content root = Some pkgs -> forall p, In p pkgs -> structural_ok content p.
Proof. exact deno_json_structural. Qed.

(* coverage part, JSON manifests: the range is exactly the inside of the value's string token, on its line *)
Theorem C05_json_covers_value :
  forall content c k v pkgs,
  denote_node content c = DPair k v -> plain_strings content c = true ->
  (npm_entry content c = Some pkgs \/ deno_entry content c = Some pkgs) ->
  forall p, In p pkgs -> exists vn, child_by_field k_value c = Some vn /\
    p_start p = n_sb vn + 1 /\ p_end p + 1 = n_eb vn /\ p_line p = n_row vn /\ p_col p = n_col vn + 1 /\ p_start p <= p_end p.
Proof. exact json_entry_range. Qed.

(* the diagnostic range built from a structurally sound location: same line, non-inverted, no wrap-around *)
Theorem C05_diag_range :
  forall content p, structural_ok content p -> blen content < 4294967296 ->
  diag_range p = Some (p_line p, p_col p, p_line p, p_col p + (p_end p - p_start p))
  /\ p_col p <= p_col p + (p_end p - p_start p).
Proof. exact diag_range_ok. Qed.

(* known findings, by witness on the text-only parser (go.mod) *)
(* columns are byte columns: with non-ASCII text before the spec they are not UTF-16 columns *)
Example C05_utf16_columns_refuted :
  let content := [114;101;113;117;105;114;101;32;40;10;9;195;169;47;120;32;118;49;46;48;46;48;10;41;10] in   (* require (\n\t(e-acute)/x v1.0.0\n)\n *)
  exists p, parse_go_mod content = [p] /\ structural_ok content p /\ p_col p = 6 /\ utf16_len (firstn 6 (skipn 10 content)) = 5.
Proof. eexists. vm_compute. repeat split; discriminate. Qed.
(* go.mod, every file of the reference grammar (Spec/GoModFile.v): each reported location is exactly the version text -
   the bytes [start, end) of the document are the version, (line, column) is the position of start, the extent is the
   length of the version, inside the document *)
From VL Require Import Spec.GoModFile Proofs.GoModProofs.
Theorem C05_go_mod_locations :
  forall f, file_ok false f = true ->
  forall p, In p (parse_go_mod (render f)) ->
  slice (render f) (p_start p) (p_end p) = Some (p_version p)
  /\ pos_of (render f) (p_start p) = (p_line p, p_col p) /\ p_end p = p_start p + blen (p_version p) /\ p_end p <= blen (render f).
Proof. exact go_mod_locations. Qed.
(* and the complete result, locations included, is the one the grammar assigns *)
Theorem C05_go_mod_located : forall f, file_ok false f = true -> parse_go_mod (render f) = located f 0 0.
Proof. exact go_mod_located. Qed.

Print Assumptions C05_package_json_structural.
Print Assumptions C05_json_covers_value.
Print Assumptions C05_diag_range.
Print Assumptions C05_go_mod_locations.

(* Cargo.toml, coverage part: under the hypotheses of C04_cargo_toml every reported range is exactly the requirement
   text - the bytes [start, end) of the document are the reported version, without the quotes *)
From VL Require Import Spec.TomlDoc Proofs.TomlWalkProofs.
Theorem C05_cargo_covers_value :
  forall content root d pkgs,
  denote_toml content root = Some d -> plain_toml content root = true -> cargo_shape_ok d = true -> cargo_known d = false ->
  walk_cargo_toml content root = Some pkgs ->
  forall p, In p pkgs -> slice content (p_start p) (p_end p) = Some (p_version p) /\ p_start p <= p_end p.
Proof.
  intros content root d pkgs H1 H2 H3 H4 W p Hin. destruct (cargo_toml_exact content root d H1 H2 H3 H4) as [q [E [_ F]]].
  rewrite W in E. injection E as <-. rewrite Forall_forall in F. exact (F p Hin).
Qed.
Print Assumptions C05_cargo_covers_value.

(* Cargo.toml, structural part: for ANY document and any tree tree-sitter can produce for it, every reported location
   is non-inverted, inside the document, and its line/column is the position of its start offset *)
Theorem C05_cargo_toml_structural :
  forall content root pkgs, wf_cst content root = true -> string_nodes_ok content root = true ->
  walk_cargo_toml content root = Some pkgs -> forall p, In p pkgs -> structural_ok content p.
Proof. exact cargo_toml_structural. Qed.
Print Assumptions C05_cargo_toml_structural.

(* pnpm-workspace.yaml, coverage part: under the hypotheses of C04_pnpm_workspace every reported range is exactly the
   version text of the catalog entry - without the quotes when the scalar is quoted *)
From VL Require Import Spec.YamlDoc Proofs.YamlWalkProofs.
Theorem C05_pnpm_covers_value :
  forall content root v pkgs,
  denote_yaml content root = Some v -> pnpm_shape_ok v = true -> pnpm_known v = false -> walk_pnpm content root = Some pkgs ->
  forall p, In p pkgs -> slice content (p_start p) (p_end p) = Some (p_version p) /\ p_start p <= p_end p.
Proof. exact pnpm_locations. Qed.
Print Assumptions C05_pnpm_covers_value.

(* workflows and composite actions, coverage part: under the hypotheses of C04_github_actions every reported range is
   exactly the ref text of the uses: value (the tag, or the hash of a hash-pinned step), or it ends in the closing quote
   of a quoted value - the listed class C05-quoted-uses-range-shifted *)
From VL Require Import Spec.GhaLoc Proofs.GhaLocProofs.
Theorem C05_github_actions_covers_ref :
  forall content root v pkgs,
  denote_yaml content root = Some v -> gha_regular v = true -> gha_known v = false -> walk_gha content root = Some pkgs ->
  forall p, In p pkgs ->
    (slice content (p_start p) (p_end p) = Some (ref_of p) /\ p_start p <= p_end p) \/ ends_quoted content p = true.
Proof. intros content root v pkgs H1 H2 H3 W p Hin. exact (proj1 (Forall_forall _ _) (gha_locations content root v H1 H2 H3 pkgs W) p Hin). Qed.
Print Assumptions C05_github_actions_covers_ref.

(* pyproject.toml, structural part: every reported location is non-inverted and inside the document, for any tree whose
   nodes can be sliced and whose string tokens start with a quote character, provided pep508_rs (an oracle of the model)
   is sane in the sense of PyLocProofs.pep_sane_at: a requirement with a specifier has its first version operator before
   any ';', and a name no longer than the text when no operator is found.  Both are evaluated on every run. *)
From VL Require Import Proofs.PyLocProofs.
Theorem C05_pyproject_structural :
  forall content (pep508 : bytes -> pep),
  (forall text dep name spec, strip_outer_quotes (trim text) = Some dep -> pep508 dep = PepSpec name spec -> pep_sane_at text name spec = true) ->
  forall root pkgs, tree_forall (node_safe content) root = true -> tree_forall (quoted_token content) root = true ->
  walk_pyproject pep508 content root = Some pkgs ->
  forall p, In p pkgs -> p_start p <= p_end p /\ p_end p <= blen content.
Proof.
  intros content pep508 Hs root pkgs H1 H2 W p Hin.
  exact (proj1 (Forall_forall _ _) (pyproject_locations content pep508 Hs root pkgs H1 H2 W) p Hin).
Qed.
Print Assumptions C05_pyproject_structural.
