(* C05 - every reported location is in bounds and covers the dependency's version text.
   Statements only; proofs in Proofs/CstProofs.v and Proofs/JsonWalkProofs.v. *)
From Coq Require Import ZArith.
From VL Require Import Lib.Bytes Lib.Text Lib.Cst Model.Config Model.Walks Model.GoMod Model.DiagRange Spec.JsonDoc
  Proofs.CstProofs Proofs.JsonWalkProofs.

(* structural part, JSON manifests: for ANY document and any tree tree-sitter can produce for it (wf_cst, and
   string tokens span their delimiters), every reported location is non-inverted, inside the document, and its
   line/column is the position of its start offset *)
Theorem C05_package_json_structural :
  forall content root pkgs, wf_cst content root = true -> string_nodes_ok content root = true ->
  walk_package_json content root = Some pkgs -> forall p, In p pkgs -> structural_ok content p.
Proof. exact package_json_structural. Qed.
Theorem C05_deno_json_structural :
  forall content root pkgs, wf_cst content root = true -> string_nodes_ok content root = true ->
  walk_deno_json content root = Some pkgs -> forall p, In p pkgs -> structural_ok content p.
Proof. exact deno_json_structural. Qed.

(* coverage part, JSON manifests: the range is exactly the inside of the value's string token, on its line *)
Theorem C05_json_covers_value :
  forall content c k v pkgs,
  denote_node content c = DPair k v -> plain_strings content c = true ->
  (npm_entry content c = Some pkgs \/ deno_entry content c = Some pkgs) ->
  forall p, In p pkgs -> exists vn, child_by_field k_value c = Some vn /\
    p_start p = n_sb vn + 1 /\ p_end p + 1 = n_eb vn /\ p_line p = n_row vn /\ p_col p = n_col vn + 1 /\ p_start p <= p_end p.
Proof. exact json_entry_range. Qed.

(* the diagnostic range built from a structurally sound location: same line, non-inverted, no wrap-around *)
Theorem C05_diag_range :
  forall content p, structural_ok content p -> blen content < 4294967296 ->
  diag_range p = Some (p_line p, p_col p, p_line p, p_col p + (p_end p - p_start p))
  /\ p_col p <= p_col p + (p_end p - p_start p).
Proof. exact diag_range_ok. Qed.

(* known findings, by witness on the text-only parser (go.mod) *)
(* columns are byte columns: with non-ASCII text before the spec they are not UTF-16 columns *)
Example C05_utf16_columns_refuted :
  let content := [114;101;113;117;105;114;101;32;40;10;9;195;169;47;120;32;118;49;46;48;46;48;10;41;10] in   (* require (\n\t(e-acute)/x v1.0.0\n)\n *)
  exists p, parse_go_mod content = [p] /\ structural_ok content p /\ p_col p = 6 /\ utf16_len (firstn 6 (skipn 10 content)) = 5.
Proof. eexists. vm_compute. repeat split; discriminate. Qed.
(* CRLF line endings: the offsets drift by one byte per line *)
Example C05_gomod_crlf_refuted :
  let content := [114;101;113;117;105;114;101;32;40;13;10;9;97;47;98;32;118;49;46;48;46;48;13;10;41;13;10] in   (* require (\r\n\ta/b v1.0.0\r\n)\r\n *)
  exists p, parse_go_mod content = [p] /\ pos_of content (p_start p) <> (p_line p, p_col p).
Proof. eexists. vm_compute. split; [reflexivity|discriminate]. Qed.

Print Assumptions C05_package_json_structural.
Print Assumptions C05_json_covers_value.
Print Assumptions C05_diag_range.
