(* C14 - every documented configuration option takes effect; bad input is harmless.
   Statements only; proofs in Proofs/ConfigProofs.v and Proofs/BackendProofs.v. *)
From Coq Require Import ZArith.
From VL Require Import Lib.Bytes Lib.Reg Gen.GenConfig Model.Config Model.Backend
  Proofs.ConfigPins Proofs.ConfigProofs Proofs.BackendProofs.

(* a null answer and an empty object mean all defaults, and the defaults are the documented ones *)
Theorem C14_null_is_defaults : on_config_answer (Some JNull) = CfgSet default_config.
Proof. exact null_is_defaults. Qed.
Theorem C14_documented_defaults :
  cf_refresh_interval default_config = 86400000%Z /\ cf_ignore_prerelease default_config = true /\
  forall r, is_registry_enabled default_config r = true.
Proof. exact documented_defaults. Qed.
Theorem C14_empty_object_is_defaults : dec_config (JObj []) = Some default_config.
Proof. exact empty_object_is_defaults. Qed.

(* every documented option of an object-shaped answer is decoded to the value given, else to its default *)
Theorem C14_ignore_prerelease_decoded :
  forall l c, dec_config (JObj l) = Some c ->
  cf_ignore_prerelease c = match lookup k_ignore l with Some (JBool b) => b | _ => true end.
Proof. exact ignore_prerelease_decoded. Qed.
Theorem C14_refresh_interval_decoded :
  forall l c, dec_config (JObj l) = Some c ->
  cf_refresh_interval c =
  match lookup k_cache l with
  | Some (JObj lc) => match lookup k_refresh lc with Some (JInt z) => z | _ => 86400000%Z end
  | Some (JArr [JInt z]) => z
  | _ => 86400000%Z
  end.
Proof. exact refresh_interval_decoded. Qed.
Theorem C14_enabled_decoded :
  forall lr rs, dec_registries (JObj lr) = Some rs -> rs = map (fun k => (k, enabled_in lr k)) reg_keys.
Proof. exact enabled_decoded. Qed.
Theorem C14_enabled_keys_documented :
  enabled_key = [ (Npm, [110;112;109]); (CratesIo, [99;114;97;116;101;115]); (GoProxy, [103;111;80;114;111;120;121]);
                  (GitHubActions, [103;105;116;104;117;98]); (PnpmCatalog, [112;110;112;109;67;97;116;97;108;111;103]);
                  (Jsr, [106;115;114]); (PyPI, [112;121;112;105]) ].
Proof. exact enabled_keys_documented. Qed.

(* unknown keys are ignored *)
Theorem C14_unknown_key_ignored :
  forall k v l, beq k k_cache = false -> beq k k_registries = false -> beq k k_ignore = false ->
  dec_config (JObj ((k, v) :: l)) = dec_config (JObj l).
Proof. exact unknown_key_ignored. Qed.

(* a failed request keeps the settings silently; a malformed answer keeps them and is reported *)
Theorem C14_failed_request_keeps_settings : on_config_answer None = CfgKeep.
Proof. exact failed_request_keeps_settings. Qed.
Theorem C14_malformed_answer_keeps_settings :
  forall j, j <> JNull -> dec_config j = None -> on_config_answer (Some j) = CfgKeepAndReport.
Proof. exact malformed_answer_keeps_settings. Qed.

(* files of a disabled registry (or of no supported kind) get neither diagnostics nor code actions,
   whatever they contain; other documents are not affected (the handler of another uri is unchanged) *)
Theorem C14_disabled_is_silent :
  forall c s e u, (c_supported c u = false \/ c_enabled c u = false) ->
  match e with EvOpen u' _ | EvChange u' _ | EvAction u' => u' = u | _ => False end ->
  forall o, In o (snd (step c s e)) -> o = OutActions false.
Proof. exact unsupported_or_disabled_is_silent. Qed.

(* non-vacuity *)
Example C14_ex :
  let j := JObj [([114;101;103;105;115;116;114;105;101;115], JObj [([110;112;109], JObj [(k_enabled, JBool false)]); ([106;115;114], JObj [])]);
                 ([120], JInt 1); (k_ignore, JBool false)] in
  exists c, dec_config j = Some c /\ is_registry_enabled c Npm = false /\ is_registry_enabled c Jsr = true /\
            cf_ignore_prerelease c = false /\ cf_refresh_interval c = 86400000%Z.
Proof. eexists. vm_compute. repeat split. Qed.

Print Assumptions C14_enabled_decoded.
Print Assumptions C14_refresh_interval_decoded.
Print Assumptions C14_disabled_is_silent.
