(* C03 - "latest" is the registry's latest tag, else the highest stable cached
   version.  Statements only; proofs in Proofs/LatestProofs.v (which rests on
   the refinement of C08 and on Proofs/OrderProofs.v: the derived Ord of
   semver::Version is a total order). *)
From Coq Require Import ZArith.
From VL Require Import Lib.Bytes Lib.SemVer Model.SemverUtil Model.CacheDb Spec.AbsCache
  Proofs.OrderProofs Proofs.CacheProofs Proofs.LatestProofs.

(* the answer of the real tables after any history is a function of the abstract entry of the key *)
Theorem C03_latest_of_history :
  forall T ign ops k, get_latest_version ign k (c_run T ops) = a_latest ign (a_run T ops k).
Proof. exact latest_of_history. Qed.

(* the registry-declared tag wins *)
Theorem C03_tag_first : forall ign e v, a_tag_of tag_latest e = Some v -> a_latest ign e = Some v.
Proof. exact latest_tag_first. Qed.

(* always a member of what the registry reported *)
Theorem C03_member :
  forall ign e v, a_latest ign e = Some v -> a_tag_of tag_latest e = Some v \/ In v (a_versions_of e).
Proof. exact latest_member. Qed.

(* without a tag: parsable, never a prerelease when prereleases are ignored, and SemVer-highest *)
Theorem C03_is_max :
  forall ign e v, a_tag_of tag_latest e = None -> a_latest ign e = Some v ->
  exists pv, parse_version v = Some pv /\ admissible ign pv /\
    forall w pw, In w (a_versions_of e) -> parse_version w = Some pw -> admissible ign pw -> vcmp pw pv <> Gt.
Proof. exact latest_is_max. Qed.

Theorem C03_none_iff :
  forall ign e, a_tag_of tag_latest e = None ->
  (a_latest ign e = None <-> forall w pw, In w (a_versions_of e) -> parse_version w = Some pw -> ~ admissible ign pw).
Proof. exact latest_none_iff. Qed.

(* independent of order, batching and repetition of the stores, up to spellings of one version *)
Theorem C03_order_independent :
  forall T ign ops ops' k,
  (forall v, stored_in k v ops <-> stored_in k v ops') -> last_tags k ops = last_tags k ops' ->
  same_spelling_class (get_latest_version ign k (c_run T ops)) (get_latest_version ign k (c_run T ops')).
Proof. exact latest_order_independent. Qed.

(* independent of every other package and registry *)
Theorem C03_isolated :
  forall T ign ops k,
  get_latest_version ign k (c_run T ops) = a_latest ign (a_run T (filter (fun o => key_eqb (op_key o) k) ops) k).
Proof. exact latest_isolated. Qed.

(* the comparison used is a total order *)
Theorem C03_total_order : is_order vcmp.
Proof. exact vcmp_order. Qed.

(* non-vacuity: spellings of one version, prereleases, junk, two batches in two orders *)
Example C03_ex :
  let k := ([110;112;109], [97]) in
  let a := [OStore k [[49;46;50;46;51]; [103]] 1%Z; OStore k [[118;49;46;50;46;51]; [50;46;48;46;48;45;98]] 2%Z] in
  let b := [OStore k [[50;46;48;46;48;45;98]; [118;49;46;50;46;51]] 5%Z; OStore k [[103]; [49;46;50;46;51]; [103]] 6%Z] in
  get_latest_version true k (c_run 30000%Z a) = Some [118;49;46;50;46;51] /\
  get_latest_version true k (c_run 30000%Z b) = Some [49;46;50;46;51] /\
  get_latest_version false k (c_run 30000%Z a) = Some [50;46;48;46;48;45;98].
Proof. vm_compute. repeat split. Qed.

Print Assumptions C03_latest_of_history.
Print Assumptions C03_is_max.
Print Assumptions C03_order_independent.
Print Assumptions C03_isolated.
Print Assumptions C03_total_order.

(* "spellings of one version" made concrete: by the round trip Display after from_str (ParseShow.parse_show) two texts
   that the lenient parser reads as the same version are the same text once the operator prefix is stripped and
   omitted components are padded - '1.2.3', 'v1.2.3', '=1.2.3'; '1.2', '1.2.0' - and nothing else *)
From VL Require Import Proofs.ParseShow Proofs.OfferedText.
Theorem C03_spelling_class_is_textual :
  forall x y p, parse_version x = Some p -> parse_version y = Some p -> pad (strip_ops x) = pad (strip_ops y).
Proof. intros x y p Hx Hy. now rewrite <- (parse_version_show x p Hx), <- (parse_version_show y p Hy). Qed.
Print Assumptions C03_spelling_class_is_textual.
