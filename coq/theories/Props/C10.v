(* C10 - every fetch outcome is recorded correctly and always releases its claim.
   Statements only; proofs in Proofs/RefreshProofs.v.

   [fetch_one T k now out fl d] is the model of fetch_and_cache_package on the cache tables
   [d] for the registry outcome [out] when the storer calls flagged in [fl] fail;
   [a_fetch_one] is its effect on the abstract cache (C08). *)
From Coq Require Import ZArith.
From VL Require Import Lib.Bytes Model.CacheDb Model.Refresh Spec.AbsCache Proofs.CacheProofs Proofs.RefreshProofs.

(* for every outcome and every combination of failing storer calls, the pipeline refines its
   abstract description; it requests the registry iff it took the claim; it reports success iff
   it took the claim, the registry returned versions and the store call succeeded *)
Theorem C10_pipeline_refines :
  forall T k now out fl d, Inv d ->
  let r := fetch_one T k now out fl d in
  Inv (r_db r) /\
  (forall k', abs (r_db r) k' = a_fetch_one T k now out fl (abs d) k') /\
  r_requested r = claimed T k now fl d /\
  r_success r = (claimed T k now fl d && match out with OVersions _ _ => negb (f_store fl) | _ => false end).
Proof. exact fetch_one_refines. Qed.

(* when the routine returns, the claim it took is released - unless the release call itself was
   the injected failure, in which case it expires after T (C09) *)
Theorem C10_released_on_return :
  forall T k now out fl st, a_claim_ok T k now st = true -> f_claim fl = false -> f_release fl = false ->
  claim_col (a_fetch_one T k now out fl st) k = None.
Proof. exact released_on_return. Qed.

(* a package that could not be claimed (someone else is fetching it) is left exactly as it was *)
Theorem C10_not_claimed_no_effect :
  forall T k now out fl st k', a_claim_ok T k now st = false -> f_claim fl = false ->
  a_fetch_one T k now out fl st k' = st k'.
Proof. exact not_claimed_no_effect. Qed.

(* versions are stored exactly when the registry returned them and the cache accepted them *)
Theorem C10_stored_iff :
  forall T k now out fl st, a_claim_ok T k now st = true -> f_claim fl = false ->
  versions (a_fetch_one T k now out fl st) k =
  match out with
  | OVersions vs _ => if f_store fl then versions st k else add_new (versions st k) vs
  | _ => versions st k
  end.
Proof. exact stored_iff. Qed.

(* marked nonexistent exactly when the registry said so (never for transient failures) *)
Theorem C10_marked_iff :
  forall T k now out fl st, a_claim_ok T k now st = true -> f_claim fl = false -> nonexistent st k = false ->
  (nonexistent (a_fetch_one T k now out fl st) k = true <-> out = ONotFound /\ f_mark fl = false).
Proof. exact marked_iff. Qed.

(* one package's outcome and faults never touch another package *)
Theorem C10_isolated :
  forall T k now out fl st k', k <> k' -> a_fetch_one T k now out fl st k' = st k'.
Proof. exact fetch_one_isolated. Qed.

(* reported as fetched exactly when its versions were stored *)
Theorem C10_reports_stored :
  forall T k now out fl d, Inv d ->
  (r_success (fetch_one T k now out fl d) = true <->
   (exists vs tags, out = OVersions vs tags) /\ f_store fl = false /\ r_requested (fetch_one T k now out fl d) = true).
Proof. exact reports_stored. Qed.

(* the on-demand entry point only requests packages that are missing *)
Theorem C10_only_missing_requested :
  forall T reg now batch d n,
  In n (snd (fst (fetch_missing T reg now false batch d))) -> a_missing (abs d (reg, n)) = true.
Proof. exact only_missing_requested. Qed.

(* non-vacuity: a batch with a success, a not-found whose release fails, and a transient error *)
Example C10_ex :
  let reg := [110;112;109] in
  let batch := [([97], OVersions [[49]] [([108], [49])], no_faults); ([98], ONotFound, mkF false false false false true); ([99], OTransient, no_faults)] in
  let '(d, req, ok) := fetch_missing 30000%Z reg 100%Z false batch empty_db in
  req = [[97]; [98]; [99]] /\ ok = [[97]] /\
  claim_col (abs d) (reg, [97]) = None /\ claim_col (abs d) (reg, [98]) = Some 100%Z /\
  nonexistent (abs d) (reg, [98]) = true /\ nonexistent (abs d) (reg, [99]) = false.
Proof. vm_compute. repeat split. Qed.

Print Assumptions C10_pipeline_refines.
Print Assumptions C10_released_on_return.
Print Assumptions C10_marked_iff.
Print Assumptions C10_only_missing_requested.
