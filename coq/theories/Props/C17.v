(* C17 - a hash-pinned action is bumped to the commit its new tag really points to.
   Statements only; proofs in Proofs/BumpProofs.v and Proofs/RegistryProofs.v.  [sha tag] is what the tag source
   answers for a tag (None: unknown tag, registry error, rate limit) - any function. *)
From Coq Require Import ZArith.
From VL Require Import Lib.Bytes Lib.Cst Model.Config Model.SemverUtil Model.CodeAction Model.Registry Model.Walks Model.Checker Model.GhaMatcher
  Spec.RegistryReply Proofs.RegistryProofs Proofs.BumpProofs.

(* every offered edit carries exactly the commit reported for the advertised tag of that repository and rewrites
   the comment to that tag in the same edit, spanning hash through comment end; without a comment only the hash is
   replaced, by the commit of the latest release *)
Theorem C17_edit_exact :
  forall versions latest sha p h acts,
  p_hash p = Some h -> bump_actions_sha versions latest sha p = Some acts ->
  forall a, In a acts ->
  exists tag s, sha tag = Some s /\ a_line a = p_line p /\ a_start a = p_col p /\
    ( (exists cm cs ce vs v l, p_extra p = Some (cm, cs, ce) /\ versions = Some vs /\ In (v, l) (targets (p_version p) vs)
         /\ tag = extract_version_prefix (p_version p) ++ v /\ a_title a = title_of l tag
         /\ a_text a = s ++ sp_hash_sp ++ tag /\ p_start p <= ce /\ a_end a = p_col p + (ce - p_start p))
      \/ (p_extra p = None /\ latest = Some tag /\ a_title a = t_bump_latest ++ tag /\ a_text a = s /\ a_end a = p_col p + blen h) ).
Proof. exact sha_actions_spec. Qed.

(* if no commit can be obtained, no bump is offered at all *)
Theorem C17_no_commit_no_action :
  forall versions latest sha p h,
  p_hash p = Some h -> (forall tag, sha tag = None) -> (match p_extra p with Some (_, _, ce) => p_start p <= ce | None => True end) ->
  bump_actions_sha versions latest sha p = Some [].
Proof. exact no_sha_no_action. Qed.

(* a hash without a version comment gets at most the move to the latest release *)
Theorem C17_hash_only_latest_only :
  forall versions latest sha p h acts,
  p_hash p = Some h -> p_extra p = None -> bump_actions_sha versions latest sha p = Some acts -> (length acts <= 1)%nat.
Proof. exact hash_only_latest_only. Qed.

(* the tag source: the commit of exactly the named tag of that repository's tag list, or no commit *)
Theorem C17_tag_lookup_exact :
  forall tag r sha, fetch_tag_sha tag (Some r) = SSha sha ->
  success (r_status r) = true /\
  exists j tags, r_body r = BJson j /\ dec_vec dec_tag j = Some tags /\
    exists pre post, tags = pre ++ (tag, sha) :: post /\ forall t, In t pre -> fst t <> tag.
Proof. exact tag_sha_exact. Qed.

(* known finding: a hash without a comment is judged as a version string once the repository is cached *)
Example C17_hash_only_verdict_refuted :
  let h := [56;101;53;101;55;101;53;97;98;56;98;51;55;48;100;54;99;51;50;57;101;99;52;56;48;50;50;49;51;51;50;97;100;97;53;55;102;48;97;98] in
  let st := mkStorer (Some (Some [118;52])) (fun _ => Some None) (Some [[118;52]]) in
  exists msg, diagnostic st (mkMatcher GhaMatcher.version_exists GhaMatcher.compare_to_latest) h = Some (SevError, msg).
Proof. eexists. vm_compute. reflexivity. Qed.

Print Assumptions C17_edit_exact.
Print Assumptions C17_no_commit_no_action.
