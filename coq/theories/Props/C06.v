(* C06 - no document, message or registry reply can crash or hang the server.
   Statements only; proofs in Proofs/TotalProofs.v.  PARTIAL by nature: these theorems cover the first-party walks
   (the models express every Rust panic site - slicing, usize underflow - as None); tree-sitter, pep508_rs, regex,
   rusqlite, tokio and tower-lsp are exercised by the robustness stream, not proved. *)
From Coq Require Import ZArith.
From VL Require Import Lib.Bytes Lib.Text Lib.Cst Model.Walks Model.GoMod Model.CodeAction Model.Registry Proofs.TotalProofs.

(* On every tree whose nodes can be sliced (node_safe on all nodes - implied by what tree-sitter guarantees plus string
   tokens spanning their delimiters, C06_wf_gives_safe) the walks return: no slice panics, no usize underflow,
   for any document content whatsoever. *)
Theorem C06_package_json_total : forall content root, tree_forall (node_safe content) root = true -> exists r, walk_package_json content root = Some r.
Proof. exact package_json_total. Qed.
Theorem C06_deno_json_total : forall content root, tree_forall (node_safe content) root = true -> exists r, walk_deno_json content root = Some r.
Proof. exact deno_json_total. Qed.
Theorem C06_cargo_toml_total : forall content root, tree_forall (node_safe content) root = true -> exists r, walk_cargo_toml content root = Some r.
Proof. exact cargo_toml_total. Qed.
Theorem C06_workflow_total : forall content root, tree_forall (node_safe content) root = true -> exists r, walk_gha content root = Some r.
Proof. exact workflow_total. Qed.
(* the YAML catalog walk and the pyproject walk cut the first and last byte off a quoted value: they additionally need
   that no node's trimmed text is a lone quote character; pyproject also relies on the PEP 508 reader not panicking *)
Theorem C06_pnpm_total :
  forall content root, tree_forall (node_safe content) root = true -> tree_forall (not_lone_quote content) root = true ->
  exists r, walk_pnpm content root = Some r.
Proof. exact pnpm_total. Qed.
Theorem C06_pyproject_total :
  forall content (pep508 : bytes -> pep), (forall s, pep508 s <> PepPanic) ->
  forall root, tree_forall (node_safe content) root = true -> tree_forall (not_lone_quote content) root = true ->
  exists r, walk_pyproject pep508 content root = Some r.
Proof. intros content pep508 H root. exact (pyproject_total content pep508 H root). Qed.
Theorem C06_wf_gives_safe :
  forall content root, wf_cst content root = true -> string_nodes_ok content root = true -> tree_forall (node_safe content) root = true.
Proof. exact wf_cst_safe. Qed.

(* go.mod parsing, cursor lookup, bump actions and reply decoding are total functions of their inputs: the models have no
   failure value at all (the Rust code has no slicing or unwrap that can fail there; tied by correspondence on junk input) *)
Theorem C06_total_by_construction :
  (forall content, exists l, parse_go_mod content = l)
  /\ (forall pkgs line char, exists o, find_at pkgs line char = o)
  /\ (forall versions p, exists l, bump_actions versions p = l)
  /\ (forall ts a r, exists o, fetch ts a r = o).
Proof. repeat split; intros; eexists; reflexivity. Qed.

(* known finding, by witness: pep508_rs panics on a requirement such as  a[x-]  - with that answer the walk panics *)
Example C06_pep508_panic_refuted :
  let content := [91;112;93;10;100;61;91;34;97;91;120;45;93;34;93] in       (* a stand-in document; the tree below is the shape of  [project] dependencies = ["a[x-]"] *)
  let str := Node k_string [] 7 14 1 3 false [] in
  let arr := Node k_array [] 6 15 1 2 false [str] in
  exists pep508, pep508 [97;91;120;45;93] = PepPanic /\ py_array pep508 content arr = None.
Proof. exists (fun _ => PepPanic). split; [reflexivity|]. vm_compute. reflexivity. Qed.

Print Assumptions C06_cargo_toml_total.
Print Assumptions C06_workflow_total.
Print Assumptions C06_pyproject_total.
