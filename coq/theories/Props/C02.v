(* C02 - a declared range admits a version iff the ecosystem's own semantics
   say so.  Statements only; proofs in Proofs/{SemVerOrder,RangeProofs,GoGhaProofs,PypiProofs}.v.

   npm / pnpm / JSR and Cargo: the theorems are about [Spec.RangeView.*_view],
   the description of what the model's parser produces for the canonical
   printing of a range of the grammar (Spec/Ranges.v); that the parser really
   produces it is evaluated on every generated case (tested link).  [z] is
   node-semver's includePrerelease desugaring flag: both settings are readings
   of "plain SemVer precedence", and they coincide on release versions. *)
From VL Require Import Lib.Bytes Lib.SemVer Model.SemverUtil Model.NpmMatcher Model.CratesMatcher
  Model.GoMatcher Model.GhaMatcher Model.PypiMatcher
  Spec.Ranges Spec.NodeSemver Spec.CargoReq Spec.RangeView Spec.Known Spec.GoGha
  Proofs.RangeProofs Proofs.GoGhaProofs Proofs.PypiProofs.

(* ---- npm: outside the known classes, the model lies between the two readings ---- *)
Theorem C02_npm_sandwich :
  forall (x : version), wf_version x = true -> build x = [] ->
  forall (r : nrange) (s : vspec), npm_known r = 0 -> npm_range_view r = Some s ->
  (node_sat false r x = true -> spec_sat s x = true) /\
  (spec_sat s x = true -> node_sat true r x = true).
Proof. exact npm_sandwich. Qed.

(* ---- and is exact on every release version ---- *)
Theorem C02_npm_release_exact :
  forall (x : version), wf_version x = true -> build x = [] ->
  forall (r : nrange) (s : vspec) (z : bool), npm_known r = 0 -> npm_range_view r = Some s -> pre x = [] ->
  spec_sat s x = node_sat z r x.
Proof. exact npm_release_exact. Qed.

(* ---- Cargo ---- *)
Theorem C02_crates_sandwich :
  forall (x : version), wf_version x = true -> build x = [] ->
  forall (r : creq) (rs : list vrange), crates_known r = 0 -> crates_req_view r = Some rs ->
  (cargo_sat_r2 false r x = true -> cspec_sat rs x = true) /\
  (cspec_sat rs x = true -> cargo_sat_r2 true r x = true).
Proof. exact crates_sandwich. Qed.

Theorem C02_crates_release_exact :
  forall (x : version), wf_version x = true -> build x = [] ->
  forall (r : creq) (rs : list vrange), crates_known r = 0 -> crates_req_view r = Some rs -> pre x = [] ->
  cspec_sat rs x = cargo_sat r x.
Proof. exact crates_release_exact. Qed.

(* ---- one relation for "latest is inside" and "some version is inside" (all strings) ---- *)
Theorem C02_npm_same_relation :
  forall cur latest s l, spec_parse cur = Some s -> parse latest = Some l ->
  (NpmMatcher.compare_to_latest cur latest = Latest <->
   NpmMatcher.version_exists cur [latest] = true \/ spec_base s = None).
Proof. exact npm_compare_latest. Qed.

Theorem C02_crates_same_relation :
  forall cur latest s l, cspec_parse cur = Some s -> parse latest = Some l ->
  (CratesMatcher.compare_to_latest cur latest = Latest <->
   CratesMatcher.version_exists cur [latest] = true \/ cspec_base s = None).
Proof. exact crates_compare_latest. Qed.

Theorem C02_gha_same_relation :
  forall cur latest c l, normalize_parse cur = Some c -> normalize_parse latest = Some l ->
  (GhaMatcher.compare_to_latest cur latest = Latest <-> GhaMatcher.version_exists cur [latest] = true).
Proof. exact gha_same_relation. Qed.

(* ---- malformed specs: Invalid exactly when a side does not parse; never "exists" ---- *)
Theorem C02_npm_invalid :
  forall cur latest, NpmMatcher.compare_to_latest cur latest = Invalid <-> spec_parse cur = None \/ parse latest = None.
Proof. exact npm_compare_invalid. Qed.
Theorem C02_crates_invalid :
  forall cur latest, CratesMatcher.compare_to_latest cur latest = Invalid <-> cspec_parse cur = None \/ parse latest = None.
Proof. exact crates_compare_invalid. Qed.
Theorem C02_gha_invalid :
  forall cur latest, GhaMatcher.compare_to_latest cur latest = Invalid <-> normalize_parse cur = None \/ normalize_parse latest = None.
Proof. exact gha_compare_invalid. Qed.
Theorem C02_go_invalid :
  forall cur latest, GoMatcher.compare_to_latest cur latest = Invalid <-> parse_go_version cur = None \/ parse_go_version latest = None.
Proof. exact go_compare_invalid. Qed.

(* ---- Go: exact identity modulo `v` and `+incompatible`; pseudo-versions accepted (all strings) ---- *)
Theorem C02_go_exists :
  forall s vs, GoMatcher.version_exists s vs = true <->
  is_pseudo_version s = true \/ exists v, In v vs /\ go_same s v = true.
Proof. exact go_exists_spec. Qed.

(* ---- PyPI: exactly the PEP 440 oracle; empty spec admits everything non-empty ---- *)
Theorem C02_pypi_exists :
  forall (specs_ok ver_ok : bytes -> bool) (contains : bytes -> bytes -> bool) S vs,
  PypiMatcher.version_exists specs_ok ver_ok contains S vs = true <->
  (S = [] /\ vs <> []) \/
  (S <> [] /\ specs_ok S = true /\ exists v, In v vs /\ ver_ok v = true /\ contains S v = true).
Proof. exact pypi_exists_spec. Qed.

Theorem C02_pypi_same_relation :
  forall (specs_ok ver_ok : bytes -> bool) (contains ver_le : bytes -> bytes -> bool) S L, S <> [] ->
  (PypiMatcher.compare_to_latest specs_ok ver_ok contains ver_le S L = Latest <->
   PypiMatcher.version_exists specs_ok ver_ok contains S [L] = true).
Proof. exact pypi_same_relation. Qed.

(* ---- the known classes are real: one witness each (open findings) ---- *)
Definition v150 := mkV 1 5 0 [] [].
(* class 1: `>1` is read as >1.0.0 (operand zero-padded); node-semver: >=2.0.0 *)
Lemma C02_known1_refuted :
  let c := mkComp OpGt false false (P1 1 XBare) in
  npm_known_comp c = 1 /\ option_map (fun r => range_sat r v150) (npm_view c) = Some true /\
  node_comp false c v150 = false /\ node_comp true c v150 = false.
Proof. vm_compute. repeat split. Qed.
(* class 2: `>= 16` (operator, blank, operand) is valid for node-semver and rejected here *)
Lemma C02_known2_refuted :
  let c := mkComp OpGe true false (P1 16 XBare) in
  npm_known_comp c = 2 /\ npm_view c = None /\ node_comp false c (mkV 18 0 0 [] []) = true.
Proof. vm_compute. repeat split. Qed.
(* class 3: build metadata takes part: `=1.0.0` does not admit 1.0.0+b *)
Lemma C02_known3_refuted :
  let c := mkComp OpEq false false (P3 1 0 0 [] []) in let x := mkV 1 0 0 [] [98] in
  option_map (fun r => range_sat r x) (npm_view c) = Some false /\ node_comp false c x = true.
Proof. vm_compute. repeat split. Qed.
(* class 4: the pseudo-version form vX.Y.Z-pre.0.TIMESTAMP-HASH is not recognised *)
Lemma C02_known4_refuted :
  is_pseudo_version [118;49;46;50;46;51;45;98;101;116;97;46;48;46;50;48;50;49;48;49;48;49;48;48;48;48;48;48;45;97;98;99;100;101;102;97;98;99;100;101;102] = false.
Proof. vm_compute. reflexivity. Qed.
(* class 5: a range that starts with `*` has no anchor: unsatisfied, yet reported Latest *)
Lemma C02_known5_refuted :
  NpmMatcher.compare_to_latest [42;32;50;46;48;46;48] [49;46;48;46;48] = Latest /\
  NpmMatcher.version_exists [42;32;50;46;48;46;48] [[49;46;48;46;48]] = false.
Proof. vm_compute. split; reflexivity. Qed.

(* ---- non-vacuity: a non-trivial range outside every class, with its view ---- *)
Example C02_ex_nonvacuous :
  let r := [NAnd [mkComp OpCaret false false (P3 0 2 3 [] []); mkComp OpLt false false (P3 0 2 9 [] [])];
            NAnd [mkComp OpNone false false (P1 1 Xx)]; NHyphen (P2 2 1 XBare) (P3 2 5 0 [] [])] in
  npm_known r = 0 /\ (exists s, npm_range_view r = Some s /\
     spec_sat s (mkV 0 2 5 [] []) = true /\ spec_sat s (mkV 0 3 0 [] []) = false /\
     spec_sat s (mkV 1 0 0 [97] []) = true /\ node_sat false r (mkV 1 0 0 [97] []) = false /\
     node_sat true r (mkV 1 0 0 [97] []) = true) /\ wf_version (mkV 1 0 0 [97] []) = true.
Proof. vm_compute. repeat split. eexists. repeat split. Qed.

Print Assumptions C02_npm_sandwich.
Print Assumptions C02_npm_release_exact.
Print Assumptions C02_crates_sandwich.
Print Assumptions C02_crates_release_exact.
Print Assumptions C02_gha_same_relation.
Print Assumptions C02_go_exists.
Print Assumptions C02_pypi_exists.

(* a ref the matcher accepts is version-like: with C02_gha_invalid, a ref with more than three components (or none)
   is reported Invalid *)
Theorem C02_gha_accepts_ref_like : forall s, normalize_parse s <> None -> ref_like s = true.
Proof. exact gha_accepts_ref_like. Qed.

(* semver::Version: Display after from_str gives the text back, so from_str is injective - two cached spellings that
   parse to the same version are the same text *)
From VL Require Import Proofs.ParseShow Proofs.GoSameProofs.
Theorem C02_semver_parse_show : forall s v, SemVer.parse s = Some v -> show v = s.
Proof. exact parse_show. Qed.
Theorem C02_semver_parse_injective : forall a b v, SemVer.parse a = Some v -> SemVer.parse b = Some v -> a = b.
Proof. exact parse_injective. Qed.
(* go.mod: 'latest is inside' is the relation 'some version is inside' uses (identity modulo 'v' and '+incompatible'),
   for every requirement that is not a pseudo-version and is a version at all *)
Theorem C02_go_same_relation :
  forall s l, is_pseudo_version s = false ->
  (GoMatcher.compare_to_latest s l = Latest <->
   SemVer.parse (normalize_go_version s) <> None /\ GoMatcher.version_exists s [l] = true).
Proof. exact go_latest_iff_same. Qed.
Print Assumptions C02_semver_parse_show.
Print Assumptions C02_go_same_relation.
