(* C09 - at most one fetcher at a time owns a package; a dead owner's claim expires.
   Statements only; proofs in Proofs/ClaimProofs.v.

   [sched_run T st steps] executes any schedule of statement-level steps of any number of
   handles: the two statements of a claim attempt may be separated by arbitrary steps of
   other handles, a handle may die between them, and every other write is atomic.  The
   events it emits record each finished claim attempt (handle, key, the time the claimant
   captured, success) and each release.  [holder k evs] is the capture time of the last
   successful claim on [k] not followed by a release. *)
From Coq Require Import ZArith.
From VL Require Import Lib.Bytes Model.CacheDb Model.CacheSched Spec.AbsCache
  Proofs.CacheProofs Proofs.ClaimProofs Proofs.CachePins Gen.GenCache.

(* mutual exclusion with expiry, for every schedule: whenever a claim succeeds while an earlier
   successful claim on the same key has not been released, more than T ms separate the two
   captured times *)
Theorem C09_exclusive :
  forall T steps, claims_exclusive T (snd (sched_run T (mkS empty_db []) steps)).
Proof. exact sched_exclusive_from_empty. Qed.

(* ... and T is the 30 s of the source *)
Theorem C09_timeout_is_30s : fetch_timeout_ms = 30000%Z.
Proof. exact pin_fetch_timeout. Qed.

(* a claim attempt that fails has no side effect *)
Theorem C09_failed_claim_no_effect :
  forall T k now d, Inv d -> snd (try_start_fetch T k now d) = false ->
  forall k', abs (fst (try_start_fetch T k now d)) k' = abs d k'.
Proof. exact failed_claim_no_effect. Qed.

(* an uninterrupted attempt succeeds exactly when the key is unknown, free or expired *)
Theorem C09_claim_succeeds_iff_free :
  forall T k now d, Inv d -> snd (try_start_fetch T k now d) = a_claim_ok T k now (abs d).
Proof. intros T k now d HI. destruct (claim_refines T k now d HI) as [_ [_ H]]. exact H. Qed.

(* the boundary is strict: a claim taken at [since] is taken over exactly when now - since > T *)
Theorem C09_expiry_boundary :
  forall T k since now d e, Inv d -> abs d k = Some e -> a_claim e = Some since ->
  (snd (try_start_fetch T k now d) = true <-> (now - since > T)%Z).
Proof. exact expiry_boundary. Qed.

(* other packages, and the same name in another registry, are never affected *)
Theorem C09_independent :
  forall T k k' now d, Inv d -> k <> k' -> abs (fst (try_start_fetch T k now d)) k' = abs d k'.
Proof. exact claims_independent. Qed.

(* the three instants around the boundary, and a schedule with two contenders for a new package *)
Example C09_boundary_instances :
  let k := ([110;112;109], [97]) in
  let d := fst (try_start_fetch 30000%Z k 100000%Z empty_db) in
  snd (try_start_fetch 30000%Z k 129999%Z d) = false /\
  snd (try_start_fetch 30000%Z k 130000%Z d) = false /\
  snd (try_start_fetch 30000%Z k 130001%Z d) = true.
Proof. vm_compute. repeat split. Qed.

Example C09_two_contenders_new_package :
  let k := ([110;112;109], [97]) in
  snd (sched_run 30000%Z (mkS empty_db []) [SClaim1 1 k 5%Z; SClaim1 2 k 6%Z; SClaim2 2; SClaim2 1]) =
    [EClaim 2 k 6%Z true; EClaim 1 k 5%Z false].
Proof. vm_compute. reflexivity. Qed.

Print Assumptions C09_exclusive.
Print Assumptions C09_expiry_boundary.
Print Assumptions C09_failed_claim_no_effect.
