(* C11 - a crash or error during a cache write never leaves a half-written package.
   Statements only; proofs in Proofs/TxProofs.v.

   [toks_of fn] is the sequence of database calls of the write method [fn] with its
   transaction brackets, regenerated from src/version/cache.rs on every run
   (Gen.GenCache.stmt_order).  [after_crash_at D effect l n d] is what a fresh process finds
   when the process died (or the method returned an error and dropped its transaction)
   after [n] calls, for ANY effects of the individual statements. *)
From Coq Require Import ZArith.
From VL Require Import Lib.Bytes Model.CacheDb Model.CacheTx Proofs.CachePins Proofs.TxProofs Proofs.ClaimProofs
  Proofs.CacheProofs Spec.AbsCache Gen.GenCache.

(* any method whose writes all sit between one begin and the final commit is all-or-nothing *)
Theorem C11_bracketed_is_atomic :
  forall D effect l d n, well_bracketed l = true ->
  after_crash_at D effect l n d = d \/ after_crash_at D effect l n d = after_complete D effect l d.
Proof. exact crash_atomic. Qed.

(* store versions and store tags are such methods in the source as it is now *)
Theorem C11_store_versions_atomic :
  forall D effect d n, let l := toks_of fn_replace_versions in
  after_crash_at D effect l n d = d \/ after_crash_at D effect l n d = after_complete D effect l d.
Proof. exact replace_versions_atomic. Qed.
Theorem C11_store_tags_atomic :
  forall D effect d n, let l := toks_of fn_save_dist_tags in
  after_crash_at D effect l n d = d \/ after_crash_at D effect l n d = after_complete D effect l d.
Proof. exact save_dist_tags_atomic. Qed.

(* release and mark are one statement; the claim is two, and the second only runs when the first
   changed nothing, so a crash between them leaves the database as it was *)
Theorem C11_single_statement_methods :
  toks_of fn_finish_fetch = [TWriteAuto] /\ toks_of fn_mark_not_found = [TWriteAuto] /\
  toks_of fn_try_start_fetch = [TWriteAuto; TWriteAuto].
Proof. exact single_statement_methods. Qed.
Theorem C11_claim_crash_between :
  forall T k now d, snd (try_start_fetch_stmt1 T k now d) = false -> fst (try_start_fetch_stmt1 T k now d) = d.
Proof. exact claim_crash_between. Qed.

(* a crash during schema creation / migration, followed by a complete open, yields the full schema
   (rows are not touched by any schema statement) *)
Theorem C11_schema_crash_safe :
  forall s n, legal_shape s = true ->
  full (open_db (run_schema (firstn n (open_stmts (user_version s))) s)) = true.
Proof. exact open_crash_then_reopen. Qed.

(* a claim left behind by a dead process stops blocking exactly when now - since > T *)
Theorem C11_stale_claim_expires :
  forall T k since now d e, Inv d -> abs d k = Some e -> a_claim e = Some since ->
  (snd (try_start_fetch T k now d) = true <-> (now - since > T)%Z).
Proof. exact expiry_boundary. Qed.

(* non-vacuity: the generated call sequences *)
Example C11_ex_sequences :
  toks_of fn_replace_versions = [TBegin; TWriteTx; TRead; TWriteTx; TCommit] /\
  toks_of fn_save_dist_tags = [TBegin; TWriteTx; TRead; TWriteTx; TWriteTx; TCommit].
Proof. split; reflexivity. Qed.
(* and what the theorem excludes: with the delete outside the transaction a crash loses the tags *)
Example C11_ex_unbracketed_is_not_atomic :
  let l := [TWriteAuto; TBegin; TWriteTx; TCommit] in
  let effect := fun i (d : list nat) => match i with O => [] | _ => d ++ [i] end in
  well_bracketed l = false /\ after_crash_at (list nat) effect l 2 [7%nat] = [] /\ after_complete (list nat) effect l [7%nat] = [1%nat].
Proof. vm_compute. repeat split. Qed.

Print Assumptions C11_bracketed_is_atomic.
Print Assumptions C11_store_tags_atomic.
Print Assumptions C11_schema_crash_safe.
