(* C08 - the cache returns exactly what was stored, per package, across any
   history.  Statements only; proofs in Proofs/CacheProofs.v.

   [c_run T ops] is the row-level model of the SQLite database (Model/CacheDb.v)
   after the operation history [ops]; [a_run T ops] is the abstract per-key map
   of Spec/AbsCache.v; [abs] reads a key off the tables.  Handles, reopening
   and reads do not appear in [ops]: they do not change the database (reopening
   is the identity on data, C12), and every read is a function of [abs]. *)
From Coq Require Import ZArith.
From VL Require Import Lib.Bytes Model.CacheDb Spec.AbsCache Proofs.CacheProofs Proofs.CachePins Gen.GenCache.

(* refinement: for every history and every key, the tables denote the abstract state *)
Theorem C08_refines :
  forall (T : Z) (ops : list op), Inv (c_run T ops) /\ forall k, abs (c_run T ops) k = a_run T ops k.
Proof. exact cache_refines_run. Qed.

(* every public read is a function of that abstract state *)
Theorem C08_read_versions : forall k d, get_versions k d = a_versions_of (abs d k).
Proof. exact get_versions_abs. Qed.
Theorem C08_read_tag : forall k t d, get_dist_tag k t d = a_tag_of t (abs d k).
Proof. exact get_dist_tag_abs. Qed.
Theorem C08_read_exists : forall k v d, version_exists k v d = existsb (beq v) (a_versions_of (abs d k)).
Proof. exact version_exists_abs. Qed.
Theorem C08_read_missing :
  forall reg names d, filter_packages_not_in_cache reg names d = filter (fun n => a_missing (abs d (reg, n))) names.
Proof. exact filter_missing_abs. Qed.
Theorem C08_read_refresh :
  forall known interval now d k, Inv d ->
  (In k (get_packages_needing_refresh known interval now d) <->
   exists e, abs d k = Some e /\ (a_updated e < now - interval)%Z /\ a_nonexistent e = false /\ known (fst k) = true).
Proof. exact refresh_abs. Qed.
(* a claim attempt succeeds exactly when the abstract state says the key is free or expired *)
Theorem C08_claim_result :
  forall T k now d, Inv d -> snd (try_start_fetch T k now d) = a_claim_ok T k now (abs d).
Proof. intros T k now d HI. destruct (claim_refines T k now d HI) as [_ [_ H]]. exact H. Qed.

(* the abstract state is what the property says: exactly the union of the stored lists, no duplicates *)
Theorem C08_versions_exact :
  forall T ops k, NoDup (a_versions_of (a_run T ops k)) /\
  forall v, In v (a_versions_of (a_run T ops k)) <-> stored_in k v ops.
Proof. exact versions_exact. Qed.
(* the most recent non-empty tag map *)
Theorem C08_tags_exact : forall T ops k, a_tags_of (a_run T ops k) = last_tags k ops.
Proof. exact tags_exact. Qed.
(* nothing from another registry or package: only the operations on k matter for k *)
Theorem C08_isolated :
  forall T ops st k,
  fold_left (fun s o => a_step T o s) ops st k =
  fold_left (fun s o => a_step T o s) (filter (fun o => key_eqb (op_key o) k) ops) st k.
Proof. exact a_run_isolated. Qed.
(* names are opaque strings: two keys are the same key only if they are equal byte for byte *)
Theorem C08_keys_opaque : forall a b, key_eqb a b = true <-> a = b.
Proof. exact key_eqb_eq. Qed.

(* the SQL text, the migrations, the time constants and the transaction brackets the
   model was written against are the ones in the source now *)
Theorem C08_time_constants : fetch_timeout_ms = 30000%Z /\ default_refresh_interval_ms = 86400000%Z.
Proof. split; [exact pin_fetch_timeout | exact pin_refresh_interval]. Qed.
(* (the SQL text itself is pinned by Proofs.CachePins.pin_sql / pin_migrations / pin_tx_brackets, which this file requires) *)

(* non-vacuity: a history that reaches a marked package with versions, a replaced tag map and an expired claim *)
Example C08_ex :
  let k := ([110;112;109], [97]) in let k2 := ([110;112;109], [98]) in
  let ops := [OStore k [[49];[50];[49]] 10%Z; OTags k [([108], [49])] 11%Z; OTags k [] 12%Z; OTags k [([110], [50])] 13%Z;
              OClaim k 20%Z; OMark k; OStore k2 [[51]] 30%Z; OClaim k 30021%Z] in
  a_run 30000%Z ops k = Some (mkA [[49];[50]] [([110],[50])] true 10%Z (Some 30021%Z)) /\
  abs (c_run 30000%Z ops) k2 = Some (mkA [[51]] [] false 30%Z None).
Proof. vm_compute. split; reflexivity. Qed.

Print Assumptions C08_refines.
Print Assumptions C08_versions_exact.
Print Assumptions C08_tags_exact.
Print Assumptions C08_isolated.
Print Assumptions C08_read_refresh.
