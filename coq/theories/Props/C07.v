(* C07 - applying an offered version bump rewrites only that version, to a real newer one.
   Statements only; proofs in Proofs/BumpProofs.v. *)
From Coq Require Import ZArith.
From VL Require Import Lib.Bytes Lib.SemVer Lib.Cst Model.SemverUtil Model.CodeAction Proofs.CstProofs Proofs.BumpProofs.

(* each calculator returns the rendering of a cached version of its line (same major.minor / same major / any)
   that is strictly newer than the current one and not exceeded by any cached version of that line ... *)
Theorem C07_target_sound :
  forall keep current versions s, latest_where keep current versions = Some s -> is_target keep current versions s.
Proof. exact latest_where_sound. Qed.
(* ... it returns one whenever such a version exists, and none otherwise *)
Theorem C07_target_complete :
  forall keep current versions cur v m,
  parse_version current = Some cur -> In v versions -> parse_version v = Some m -> keep cur m = true -> vcmp m cur = Gt ->
  exists s, latest_where keep current versions = Some s.
Proof. exact latest_where_complete. Qed.
Theorem C07_no_target_iff :
  forall keep current versions,
  latest_where keep current versions = None <->
  (parse_version current = None \/ exists cur, parse_version current = Some cur /\
     forall v m, In v versions -> parse_version v = Some m -> keep cur m = true -> vcmp m cur <> Gt).
Proof. exact latest_where_none_iff. Qed.
Theorem C07_calculators :
  calculate_latest_patch = latest_where keep_patch /\ calculate_latest_minor = latest_where keep_minor /\ calculate_latest_major = latest_where keep_major.
Proof. repeat split. Qed.

(* the offered list: every entry is the target of its line, no version is offered twice, every existing target is offered *)
Theorem C07_targets :
  forall current versions,
  (forall v l, In (v, l) (targets current versions) -> is_target (keep_of l) current versions v)
  /\ NoDup (map fst (targets current versions))
  /\ (forall keep s, In keep [keep_patch; keep_minor; keep_major] -> latest_where keep current versions = Some s -> In s (map fst (targets current versions))).
Proof. exact targets_spec. Qed.

(* an action replaces [column, column + len(version)) on the dependency's line by operator prefix + target *)
Theorem C07_actions :
  forall versions p a, In a (bump_actions versions p) ->
  exists vs v l, versions = Some vs /\ vs <> [] /\ In (v, l) (targets (p_version p) vs)
    /\ a_text a = extract_version_prefix (p_version p) ++ v
    /\ a_title a = title_of l (a_text a)
    /\ a_line a = p_line p /\ a_start a = p_col p /\ a_end a = p_col p + blen (p_version p).
Proof. exact bump_actions_spec. Qed.
Theorem C07_actions_complete :
  forall vs p v l, vs <> [] -> In (v, l) (targets (p_version p) vs) ->
  In (plain_action p l (extract_version_prefix (p_version p) ++ v)) (bump_actions (Some vs) p).
Proof. exact bump_actions_complete. Qed.
(* nothing is offered when the package is not cached (or the cache cannot be read) or the cursor is on no spec *)
Theorem C07_nothing_uncached : forall p, bump_actions None p = [] /\ bump_actions (Some []) p = [].
Proof. exact bump_actions_none. Qed.
Theorem C07_cursor_hit :
  forall pkgs line char p, find_at pkgs line char = Some p ->
  In p pkgs /\ p_line p = line /\ p_col p <= char /\ char < p_col p + blen (p_version p).
Proof. exact find_at_spec. Qed.
Theorem C07_cursor_miss :
  forall pkgs line char, find_at pkgs line char = None ->
  forall p, In p pkgs -> ~ (p_line p = line /\ p_col p <= char /\ char < p_col p + blen (p_version p)).
Proof. exact find_at_none. Qed.

(* the range operator is preserved: the new text starts with the operator the current spec starts with *)
Theorem C07_operator_preserved :
  forall v, starts_with (extract_version_prefix v) v = true
  /\ In (extract_version_prefix v) [[62;61]; [60;61]; [62]; [60]; [61]; [94]; [126]; [118]; []].
Proof. intros v. split; [apply prefix_is_prefix|apply prefix_is_operator]. Qed.
(* the inserted version consists of [0-9A-Za-z.+-] only: it cannot close a string or start a comment *)
Theorem C07_inserted_text_safe : forall m, wf_version m = true -> forallb safe_char (show m) = true.
Proof. exact show_safe. Qed.

(* locality: when the location is structurally sound and its reported extent is the version text, applying the
   edit changes exactly those bytes (columns in bytes = UTF-16 units on an ASCII line prefix) *)
Theorem C07_edit_local :
  forall content p label nv,
  structural_ok content p -> p_end p = p_start p + blen (p_version p) ->
  apply_edit content (plain_action p label nv) = firstn_N (p_start p) content ++ nv ++ skipn_N (p_end p) content.
Proof. exact plain_edit_local. Qed.

(* non-vacuity *)
Example C07_ex :
  let vs := [[49;46;48;46;48]; [49;46;48;46;53]; [49;46;50;46;48]; [50;46;48;46;48]] in     (* 1.0.0 1.0.5 1.2.0 2.0.0 *)
  targets [94;49;46;48;46;48] vs = [([49;46;48;46;53], l_patch); ([49;46;50;46;48], l_minor); ([50;46;48;46;48], l_major)]
  /\ targets [50;46;48;46;48] vs = [].
Proof. vm_compute. split; reflexivity. Qed.
(* known finding: the advertised string is a re-rendering - for tags such as v5 it is not a string the cache holds *)
Example C07_respelling_refuted :
  let vs := [[118;52]; [118;53]] in                          (* v4 v5 *)
  bump_actions (Some vs) (mkPkg [97] [118;52] None 0 2 0 0 None) <> [] /\
  forall a, In a (bump_actions (Some vs) (mkPkg [97] [118;52] None 0 2 0 0 None)) -> a_text a = [118;53;46;48;46;48] /\ ~ In (a_text a) vs.
Proof. vm_compute. split; [discriminate|]. intros a [<-|[]]. split; [reflexivity|]. intros [H|[H|[]]]; discriminate. Qed.

(* the offered version text: Display after from_str gives the text back (ParseShow.parse_show), so what a calculator
   offers is a cached version text with its operator prefix stripped and missing components padded with ".0" - and the
   cached text itself whenever that is a full SemVer version.  The padded / stripped case is the finding above. *)
From VL Require Import Proofs.ParseShow Proofs.OfferedText.
Theorem C07_offered_text :
  forall keep current versions s, latest_where keep current versions = Some s ->
  exists v, In v versions /\ s = pad (strip_ops v) /\ (forall m, SemVer.parse v = Some m -> s = v).
Proof. exact offered_text. Qed.
Theorem C07_full_semver_read_as_is :
  forall s v, SemVer.parse s = Some v -> pad (strip_ops s) = s /\ parse_version s = Some v.
Proof. exact full_semver_read_as_is. Qed.
(* ... and the edited spec means what the action says: the same lenient parser reads [operator prefix ++ offered
   text] as the target version *)
Theorem C07_edited_spec_denotes_target :
  forall keep current versions s, latest_where keep current versions = Some s ->
  exists v m, In v versions /\ parse_version v = Some m /\ s = show m /\
              parse_version (extract_version_prefix current ++ s) = Some m.
Proof. exact offered_action_denotes_target. Qed.
Print Assumptions C07_offered_text.
Print Assumptions C07_edited_spec_denotes_target.

Print Assumptions C07_targets.
Print Assumptions C07_edit_local.
Print Assumptions C07_inserted_text_safe.
