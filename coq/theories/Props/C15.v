(* C15 - a registry reply is turned into exactly the versions and tags it advertises.
   Statements only; proofs in Proofs/RegistryProofs.v.  [ts] is chrono's RFC 3339 reader (any function). *)
From Coq Require Import ZArith Permutation.
From VL Require Import Lib.Bytes Model.Config Model.Registry Spec.RegistryReply
  Proofs.RegistryPins Proofs.RegistryProofs.

(* a well-formed reply with a 2xx status yields exactly the advertised versions minus the yanked ones
   (in some order) and exactly the declared tags - for all six protocols *)
Theorem C15_reply_exact :
  forall ts a r, success (r_status r) = true -> wf_body a (r_body r) = true ->
  exists vs, fetch ts a (Some r) = OOk vs (declared_tags a (r_body r)) /\ Permutation vs (advertised a (r_body r)).
Proof. exact reply_exact. Qed.

(* "does not exist" exactly on the registry's definitive answers: 404, and 410 for the Go proxy *)
Theorem C15_not_found_iff :
  forall ts a r, fetch ts a (Some r) = ONotFound <->
  ((r_status r =? 404) || match a with AGo => r_status r =? 410 | _ => false end) = true.
Proof. intros ts a r. rewrite (not_found_iff ts a r). destruct a; reflexivity. Qed.

(* rate limiting is recognised for GitHub's 429 only *)
Theorem C15_rate_limited_iff :
  forall ts a r, (exists x, fetch ts a (Some r) = ORateLimited x) <-> a = AGitHub /\ r_status r = 429.
Proof. exact rate_limited_iff. Qed.

(* every other status, an undecodable body and no reply at all are transient failures *)
Theorem C15_other_status_transient :
  forall ts a r, success (r_status r) = false -> definitive_not_found (reg_of a) (r_status r) = false ->
  fetch ts a (Some r) = OTransient \/ exists x, fetch ts a (Some r) = ORateLimited x.
Proof. exact other_status_transient. Qed.
Theorem C15_undecodable_transient :
  forall ts a r, success (r_status r) = true -> decode ts a (r_body r) = None -> fetch ts a (Some r) = OTransient.
Proof. exact undecodable_transient. Qed.
Theorem C15_no_reply_transient : forall ts a, fetch ts a None = OTransient.
Proof. exact no_reply_transient. Qed.
Theorem C15_ok_only_success :
  forall ts a r vs tags, fetch ts a (Some r) = OOk vs tags -> success (r_status r) = true /\ decode ts a (r_body r) = Some (vs, tags).
Proof. exact ok_only_success. Qed.

(* the package is requested under the manifest's name in the registry's own encoding *)
Theorem C15_request_paths :
  forall name,
  request_path ANpm name = 47 :: encode_npm name
  /\ request_path ACrates name = 47 :: name
  /\ request_path AGo name = 47 :: encode_go name ++ [47; 64; 118; 47; 108; 105; 115; 116]
  /\ request_path AGitHub name = [47; 114; 101; 112; 111; 115; 47] ++ name ++ [47; 114; 101; 108; 101; 97; 115; 101; 115]
  /\ request_path AJsr name = 47 :: name ++ [47; 109; 101; 116; 97; 46; 106; 115; 111; 110]
  /\ request_path APypi name = [47; 112; 121; 112; 105; 47] ++ name ++ [47; 106; 115; 111; 110]
  /\ request_path_tags name = [47; 114; 101; 112; 111; 115; 47] ++ name ++ [47; 116; 97; 103; 115].
Proof. exact request_paths. Qed.
Theorem C15_npm_name_roundtrip : forall name, ~ In 37 name -> pct_decode_slash (encode_npm name) = name.
Proof. exact npm_name_roundtrip. Qed.
Theorem C15_npm_scoped_one_segment : forall t, ~ In 47 (encode_npm (64 :: t)).
Proof. exact npm_scoped_one_segment. Qed.
Theorem C15_go_name_roundtrip : forall name, ~ In 33 name -> go_unescape (encode_go name) = Some name.
Proof. exact go_name_roundtrip. Qed.

(* known finding: one GET is made, so the later pages of a paginated GitHub answer are never read *)
Theorem C15_github_pagination_refuted :
  exists pages first, pages = first :: page2 :: nil /\ forallb wf_github_page pages = true /\
    forall ts, exists vs, fetch ts AGitHub (Some (mkReply 200 None (BJson first))) = OOk vs [] /\ ~ Permutation vs (adv_github pages).
Proof. exact github_pagination_refuted. Qed.

(* non-vacuity: a reply with a yanked version, a missing timestamp and a tag *)
Example C15_ex_jsr :
  let j := JObj [(s_versions, JObj [([49], JObj [(s_yanked, JBool true)]); ([50], JObj []); ([51], JObj [(s_createdAt, JStr [120])])])] in
  wf_jsr j = true /\ adv_jsr j = [[50]; [51]] /\ decode (fun _ => None) AJsr (BJson j) = Some ([[50]; [51]], []).
Proof. vm_compute. repeat split. Qed.
Example C15_ex_npm :
  let j := JObj [(s_versions, JObj [([49], JObj []); ([50], JNull)]); (s_dist_tags, JObj [(s_latest, JStr [50])])] in
  wf_npm j = true /\ fetch (fun _ => None) ANpm (Some (mkReply 200 None (BJson j))) = OOk [[49]; [50]] [(s_latest, [50])].
Proof. vm_compute. repeat split. Qed.

Print Assumptions C15_reply_exact.
Print Assumptions C15_not_found_iff.
Print Assumptions C15_go_name_roundtrip.
