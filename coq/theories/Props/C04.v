(* C04 - exactly the registry dependencies a manifest declares are checked.
   Statements only; proofs in Proofs/JsonWalkProofs.v.  [denote] is the denotation of a tree-sitter-json
   tree as a JSON value, [declared_*] the reference reading of the dependencies of that value (Spec/JsonDoc.v).
   The other five formats are covered by the walk models' correspondence with the parsers and by the
   generator's declared-set oracle (see DESIGN.md): their walks are modelled, not yet proved against a reference. *)
From Coq Require Import ZArith.
From VL Require Import Lib.Bytes Lib.Cst Model.Config Gen.GenParsers Model.Walks Spec.JsonDoc
  Proofs.ParserPins Proofs.JsonWalkProofs.

(* package.json: for every document whose tree denotes a JSON value j, outside the known classes
   (backslash escapes / leading comment: plain_doc; non-registry specifiers other than catalog:, malformed
   scoped aliases: npm_known), the walk reports exactly the declared (name, spec) pairs, in document order *)
Theorem C04_package_json :
  forall content root j,
  denote content root = Some j -> plain_doc content root = true -> npm_known j = false ->
  exists pkgs, walk_package_json content root = Some pkgs /\ map nv pkgs = declared_package_json j.
Proof. exact package_json_exact. Qed.

(* deno.json: the same for the jsr: entries of "imports" (known class: a sub-path after the range) *)
Theorem C04_deno_json :
  forall content root j,
  denote content root = Some j -> plain_doc content root = true -> deno_known j = false ->
  exists pkgs, walk_deno_json content root = Some pkgs /\ map nv pkgs = declared_deno_json j.
Proof. exact deno_json_exact. Qed.

(* the sections, prefixes and keywords the walks use are the documented ones (regenerated from the source) *)
Theorem C04_tables_documented :
  npm_dependency_fields = npm_sections /\ npm_alias_prefix = p_npm /\ npm_catalog_prefix = p_catalog
  /\ latest_word = w_latest /\ jsr_prefix = p_jsr /\ deno_imports_key = w_imports.
Proof. split; [exact fields_are_sections|exact prefixes_are_documented]. Qed.

(* layout independence is a corollary: the right-hand sides mention the value only *)
Theorem C04_layout_independent :
  forall c1 r1 c2 r2 j p1 p2,
  denote c1 r1 = Some j -> denote c2 r2 = Some j -> plain_doc c1 r1 = true -> plain_doc c2 r2 = true -> npm_known j = false ->
  walk_package_json c1 r1 = Some p1 -> walk_package_json c2 r2 = Some p2 -> map nv p1 = map nv p2.
Proof.
  intros c1 r1 c2 r2 j p1 p2 H1 H2 P1 P2 K W1 W2.
  destruct (package_json_exact c1 r1 j H1 P1 K) as [q1 [E1 M1]]. destruct (package_json_exact c2 r2 j H2 P2 K) as [q2 [E2 M2]].
  rewrite W1 in E1. rewrite W2 in E2. injection E1 as <-. injection E2 as <-. congruence.
Qed.

(* known findings, by witness: a workspace: specifier is reported as a version; a JSR sub-path ends up in the version *)
Definition kdeps : bytes := [100;101;112;101;110;100;101;110;99;105;101;115].
Example C04_npm_nonregistry_refuted :
  let j := JObj [(kdeps, JObj [([97], JStr [119;111;114;107;115;112;97;99;101;58;42])])] in
  npm_known j = true /\ declared_package_json j = [] /\ parse_npm_alias [119;111;114;107;115;112;97;99;101;58;42] = None.
Proof. vm_compute. repeat split. Qed.
Example C04_jsr_subpath_refuted :
  let v := [106;115;114;58;64;115;47;112;64;49;47;120] in     (* jsr:@s/p@1/x *)
  jsr_value_known v = true /\ jsr_entry_decl [] v = [([64;115;47;112], [49])] /\ parse_jsr_specifier v = Some ([64;115;47;112], [49;47;120]).
Proof. vm_compute. repeat split. Qed.

Print Assumptions C04_package_json.
Print Assumptions C04_deno_json.

(* go.mod: no third party in the way - the text-level model of the parser reports exactly the requirements of
   every file of the reference grammar (Spec/GoModFile.v: single-line requires, require blocks, any other lines,
   with any indentation, separators, trailing blanks and // comments, over printable ASCII and tabs, LF-terminated) *)
From VL Require Import Model.GoMod Spec.GoModFile Proofs.GoModProofs.
Theorem C04_go_mod :
  forall f, file_ok false f = true -> map nv2 (parse_go_mod (render f)) = declared_go_mod f.
Proof. exact go_mod_exact. Qed.
Example C04_go_mod_ex :
  let f := [ LOther [109;111;100;117;108;101;32;109]; LOther [];
             LRequire [] [32] [97;47;98] [9] [118;49;46;50;46;51] (mkTail [32] (Some [32;105;110;100;105;114;101;99;116]));
             LOpen [] [32] []; LSpec [9] [99;47;100] [32;32] [118;48;46;49;46;48] (mkTail [32;9] None); LOther [9;47;47;32;120];
             LClose [] (mkTail [32] (Some [32;101;110;100])); LOther [114;101;116;114;97;99;116;32;118;49;46;48;46;53] ] in
  file_ok false f = true /\ declared_go_mod f = [([97;47;98], [118;49;46;50;46;51]); ([99;47;100], [118;48;46;49;46;48])]
  /\ map nv2 (parse_go_mod (render f)) = declared_go_mod f.
Proof. vm_compute. repeat split. Qed.
Print Assumptions C04_go_mod.

(* Cargo.toml: for every document whose tree-sitter-toml tree denotes a TOML document d (Spec/TomlDoc.v), written in the
   plain spellings (plain_toml: bare / dotted-bare keys without blanks, basic strings without backslashes - the other
   spellings are the known classes toml-quoted-key / toml-literal-string), well-formed as a Cargo manifest as far as the
   reading goes (cargo_shape_ok) and outside the known classes (cargo_known: renamed packages, sections other than the
   four literal table names, dotted dependencies with a path/workspace/registry member), the walk reports exactly the
   declared (crate, requirement) pairs, in document order - and each reported range is exactly the requirement text *)
From VL Require Import Spec.TomlDoc Proofs.TomlWalkProofs.
Theorem C04_cargo_toml :
  forall content root d,
  denote_toml content root = Some d -> plain_toml content root = true -> cargo_shape_ok d = true -> cargo_known d = false ->
  exists pkgs, walk_cargo_toml content root = Some pkgs /\ map TomlWalkProofs.nv pkgs = declared_cargo d.
Proof.
  intros content root d H1 H2 H3 H4. destruct (cargo_toml_exact content root d H1 H2 H3 H4) as [pkgs [E [M _]]]. exists pkgs. now split.
Qed.
(* the tables and skip keys the walk uses are the documented ones (regenerated from the source) *)
Theorem C04_cargo_tables_documented :
  cargo_plain_tables = map (split_on 46) cargo_dependency_tables /\ cargo_skip_keys = cargo_nonregistry_keys.
Proof. split; [exact tables_documented|exact skip_keys_documented]. Qed.
(* layout independence: two documents denoting the same TOML document yield the same list *)
Theorem C04_cargo_layout_independent :
  forall c1 r1 c2 r2 d p1 p2,
  denote_toml c1 r1 = Some d -> denote_toml c2 r2 = Some d -> plain_toml c1 r1 = true -> plain_toml c2 r2 = true ->
  cargo_shape_ok d = true -> cargo_known d = false ->
  walk_cargo_toml c1 r1 = Some p1 -> walk_cargo_toml c2 r2 = Some p2 -> map TomlWalkProofs.nv p1 = map TomlWalkProofs.nv p2.
Proof.
  intros c1 r1 c2 r2 d p1 p2 H1 H2 P1 P2 S K W1 W2.
  destruct (cargo_toml_exact c1 r1 d H1 P1 S K) as [q1 [E1 [M1 _]]]. destruct (cargo_toml_exact c2 r2 d H2 P2 S K) as [q2 [E2 [M2 _]]].
  rewrite W1 in E1. rewrite W2 in E2. injection E1 as <-. injection E2 as <-. congruence.
Qed.
(* the hypotheses are satisfiable, and the known classes are real: witnesses on concrete trees *)
Definition ex_cargo_text : bytes :=   (* [dependencies]\na = "1"\n *)
  [91;100;101;112;101;110;100;101;110;99;105;101;115;93;10;97;32;61;32;34;49;34;10].
Definition ex_cargo_tree : node :=
  Node tk_document [] 0 23 0 0 false
    [Node tk_table [] 0 23 0 0 false
      [Node [91] [] 0 1 0 0 false []; Node tk_bare_key [] 1 13 0 1 false []; Node [93] [] 13 14 0 13 false [];
       Node tk_pair [] 15 22 1 0 false
         [Node tk_bare_key [] 15 16 1 0 false []; Node [61] [] 17 18 1 2 false [];
          Node tk_string [] 19 22 1 4 false [Node [34] [] 19 20 1 4 false []; Node [34] [] 21 22 1 6 false []]]]].
Example C04_cargo_ex :
  denote_toml ex_cargo_text ex_cargo_tree = Some [ITable [w_dependencies] [([[97]], TStr [49])]]
  /\ plain_toml ex_cargo_text ex_cargo_tree = true /\ cargo_shape_ok [ITable [w_dependencies] [([[97]], TStr [49])]] = true
  /\ cargo_known [ITable [w_dependencies] [([[97]], TStr [49])]] = false
  /\ option_map (map TomlWalkProofs.nv) (walk_cargo_toml ex_cargo_text ex_cargo_tree) = Some [([97], [49])].
Proof. vm_compute. repeat split. Qed.
Example C04_cargo_renamed_refuted :
  let d := [ITable [w_dependencies] [([[97]], TInline [([w_version], TStr [49]); ([w_package], TStr [98])])]] in
  cargo_known d = true /\ declared_cargo d = [([98], [49])].
Proof. vm_compute. repeat split. Qed.
Print Assumptions C04_cargo_toml.

(* pyproject.toml: for every document whose tree denotes a TOML document d (plain spellings; literal strings allowed),
   outside the known class (a dependency section reached through dotted keys or written as an inline table), the walk
   reports exactly the requirements of project.dependencies, project.optional-dependencies.<group> and
   build-system.requires, each read by the PEP 508 oracle [pep508] (pep508_rs; any function that does not panic - its
   panics are finding C06-pep508-panic-on-malformed-requirement) *)
From VL Require Import Proofs.PyWalkProofs.
Theorem C04_pyproject :
  forall (pep508 : bytes -> pep), (forall s, pep508 s <> PepPanic) ->
  forall content root d,
  denote_toml content root = Some d -> plain_pyproject content root = true -> pyproject_known d = false ->
  exists pkgs, walk_pyproject pep508 content root = Some pkgs
               /\ map TomlWalkProofs.nv pkgs = declared_pyproject (preq pep508) d.
Proof. exact pyproject_exact. Qed.
Theorem C04_pyproject_tables_documented :
  map (fun r : bytes * bytes => (split_on 46 (fst r), snd r)) pyproject_tables
  = [([w_project], w_dependencies); ([w_build_system], w_requires); ([w_project; w_optional_dependencies], [])].
Proof. exact py_tables_documented. Qed.
Print Assumptions C04_pyproject.

(* pnpm-workspace.yaml: for every document whose tree-sitter-yaml tree denotes a YAML value v (Spec/YamlDoc.v: block or
   flow collections, plain / quoted one-line scalars without escapes), inside the documented shape (pnpm_shape_ok: the
   entries of a catalog mapping are scalars) and outside the known classes (pnpm_known: a catalog section written in
   flow style; a key named catalog / catalogs below the top level), the walk reports exactly the entries of `catalog`
   and of every group of `catalogs`, in document order *)
From VL Require Import Spec.YamlDoc Proofs.YamlWalkProofs.
Theorem C04_pnpm_workspace :
  forall content root v,
  denote_yaml content root = Some v -> pnpm_shape_ok v = true -> pnpm_known v = false ->
  exists pkgs, walk_pnpm content root = Some pkgs /\ map YamlWalkProofs.nv pkgs = declared_pnpm v.
Proof. exact pnpm_exact_nv. Qed.
Print Assumptions C04_pnpm_workspace.

(* GitHub Actions workflows and composite actions: for every document whose tree denotes a YAML value v, of the
   documented shape (gha_regular: the only keys named "steps" are jobs.<id>.steps and runs.steps, their values are
   sequences of step mappings, and a step's only "uses" key is its own, with a scalar value) and outside the known
   classes (gha_known: a mapping / sequence on the way to a step written in flow style; a local or docker action whose
   text contains '@'), whatever the walk returns is exactly the list of (owner/repo, ref) of the steps' uses: entries,
   in document order (for a hash-pinned step the ref is the hash; the version shown comes from the comment, see C17).
   Stated for the results the walk returns: that it returns (does not panic) on such trees is C06's totality theorem. *)
From VL Require Import Proofs.GhaWalkProofs.
Theorem C04_github_actions :
  forall content root v,
  denote_yaml content root = Some v -> gha_regular v = true -> gha_known v = false ->
  forall pkgs, walk_gha content root = Some pkgs -> map nh pkgs = declared_gha v.
Proof. exact gha_exact. Qed.
Print Assumptions C04_github_actions.

(* known findings of the YAML / TOML walks, by witness at the value level *)
Example C04_pnpm_catalog_anywhere_refuted :
  let v := YMap false [([111;118;101;114;114;105;100;101;115], YMap false [(w_catalog, YMap false [([108;101;102;116;45;112;97;100], YStr [49;46;48;46;48])])]);
                       (w_catalog, YMap false [([114;101;97;99;116], YStr [94;49;56;46;48;46;48])])] in
  pnpm_known v = true /\ declared_pnpm v = [([114;101;97;99;116], [94;49;56;46;48;46;48])].
Proof. vm_compute. repeat split. Qed.
(* [all_steps] is what the walk computes on a value (GhaWalkProofs.walk_gha_all): it reads the step input named uses as well *)
Example C04_gha_uses_anywhere_refuted :
  let v := YMap false [(w_jobs, YMap false [([98], YMap false [(w_steps, YSeq false
             [YMap false [(w_uses, YStr [97;99;116;105;111;110;115;47;99;104;101;99;107;111;117;116;64;118;52]); ([119;105;116;104], YMap false [(w_uses, YStr [97;47;98;64;118;49])])]])])])] in
  gha_regular v = false /\ steps_fine v = true /\ declared_gha v = [([97;99;116;105;111;110;115;47;99;104;101;99;107;111;117;116], [118;52])]
  /\ all_steps v = [([97;99;116;105;111;110;115;47;99;104;101;99;107;111;117;116], [118;52]); ([97;47;98], [118;49])].
Proof. vm_compute. repeat split. Qed.
Example C04_cargo_dotted_path_refuted :
  let d := [ITable [w_dependencies] [([[102;111;111]; w_path], TStr [46;46;47;102;111;111]); ([[102;111;111]; w_version], TStr [49;46;50;46;51])]] in
  cargo_known d = true /\ declared_cargo d = [].
Proof. vm_compute. repeat split. Qed.

(* ... and with C06's totality theorem: on trees tree-sitter can produce (every node can be sliced) the walk does return *)
From VL Require Import Proofs.TotalProofs.
Theorem C04_github_actions_total :
  forall content root v,
  tree_forall (node_safe content) root = true ->
  denote_yaml content root = Some v -> gha_regular v = true -> gha_known v = false ->
  exists pkgs, walk_gha content root = Some pkgs /\ map nh pkgs = declared_gha v.
Proof.
  intros content root v Hs Hd Hr Hk. destruct (workflow_total content root Hs) as [pkgs E]. exists pkgs. split; [exact E|].
  exact (gha_exact content root v Hd Hr Hk pkgs E).
Qed.
