(* C18 - an unusable cache disables checking; it never crashes or misinforms.
   Statements only; proofs in Proofs/{DataDirProofs,BackendProofs,VerdictProofs}.v. *)
From VL Require Import Lib.Bytes Model.SemverUtil Model.Checker Model.Backend Model.DataDir
  Proofs.DataDirProofs Proofs.BackendProofs Proofs.VerdictProofs.

(* the documented location rule, for all values of the two variables that name a directory
   (non-empty, no trailing separator): $XDG_DATA_HOME/version-lsp, else ~/.local/share/version-lsp,
   else ./version-lsp; the database is versions.db inside it *)
Theorem C18_data_dir_rule :
  (forall x home, plain x -> data_dir_with_env (Some x) home = x ++ 47 :: s_version_lsp) /\
  (forall h, plain h -> data_dir_with_env None (Some h) = h ++ 47 :: s_local_share ++ 47 :: s_version_lsp) /\
  data_dir_with_env None None = [46; 47] ++ s_version_lsp.
Proof. exact data_dir_rule. Qed.
Theorem C18_db_path_rule :
  forall xdg home, plain (data_dir_with_env xdg home) ->
  db_path xdg home = data_dir_with_env xdg home ++ 47 :: s_versions_db.
Proof. exact db_path_rule. Qed.

(* without a store, for every sequence of requests: nothing is ever published, no code action is
   offered, no fetch is started; every open / change of a checked document yields exactly the warning *)
Theorem C18_no_store_is_quiet :
  forall c cached0 evs, c_has_store c = false ->
  let '(s', outs) := run c (init_state cached0) evs in
  fetching s' = [] /\ forall o, In o outs -> quiet_output o.
Proof. exact no_store_is_quiet. Qed.
Theorem C18_no_store_warns_once :
  forall c s u t, c_has_store c = false -> c_supported c u = true -> c_enabled c u = true ->
  snd (step c s (EvOpen u t)) = [OutWarnNoCache] /\ snd (step c s (EvChange u t)) = [OutWarnNoCache].
Proof. exact no_store_warns_once. Qed.

(* whatever fails after a healthy start: a diagnostic that is published was computed from reads that all
   succeeded, and is the one a healthy store holding the same data gives; a failure on one dependency
   does not touch another (each is computed from its own reads) *)
Theorem C18_diagnostic_backed_by_reads :
  forall st m cur d, diagnostic st m cur = Some d ->
  exists l res all,
    s_latest st = Some (Some l) /\ s_tag st cur = Some res /\ s_versions st = Some all /\
    diagnostic (mkStorer (Some (Some l)) (fun _ => Some res) (Some all)) m cur = Some d.
Proof. exact diagnostic_backed_by_reads. Qed.
Theorem C18_failed_read_silent :
  forall st m cur, s_latest st = None \/ (exists l, s_latest st = Some (Some l) /\ s_tag st cur = None) ->
  diagnostic st m cur = None.
Proof. exact failed_read_no_diagnostic. Qed.
Theorem C18_dependencies_independent :
  forall st1 st2 m cur, s_latest st1 = s_latest st2 -> s_tag st1 cur = s_tag st2 cur -> s_versions st1 = s_versions st2 ->
  diagnostic st1 m cur = diagnostic st2 m cur.
Proof. exact diagnostics_independent. Qed.

Example C18_ex_dirs :
  data_dir_with_env (Some [47;120]) (Some [47;104]) = [47;120;47] ++ s_version_lsp /\
  data_dir_with_env None (Some [47;104]) = [47;104;47] ++ s_local_share ++ [47] ++ s_version_lsp /\
  plain [47;120] /\ plain [47;104].
Proof. repeat split; try discriminate; reflexivity. Qed.

Print Assumptions C18_data_dir_rule.
Print Assumptions C18_no_store_is_quiet.
Print Assumptions C18_diagnostic_backed_by_reads.
