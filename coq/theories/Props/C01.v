(* C01 - each dependency gets exactly the diagnostic its spec, cache and tags imply.
   Statements only; proofs in Proofs/VerdictProofs.v.

   [diagnostic st m cur] models generate_diagnostics for one dependency whose
   spec is [cur]: compare_version over the storer [st] with matcher [m], then
   create_diagnostic.  [storer_of ign k d] is the real cache (tables [d]) read
   without faults; by C08/C03 its reads are functions of the abstract history. *)
From Coq Require Import ZArith.
From VL Require Import Lib.Bytes Lib.Reg Lib.SemVer Model.SemverUtil Model.GoMatcher Proofs.GoOrderProofs Model.CacheDb Model.Checker Spec.Verdict Spec.AbsCache
  Proofs.CacheProofs Proofs.VerdictProofs Proofs.CheckerPins.

(* the diagnostic is the decision table of Spec/Verdict.v applied to the facts, for every
   ecosystem's matcher that satisfies the matcher contract, every database state and every spec *)
Theorem C01_table :
  forall ign k d m (F : matcher_facts m) cur,
  verdict_of cur (diagnostic (storer_of ign k d) m cur) (table (facts_of ign k d m F cur) cur).
Proof. exact diagnostic_is_table. Qed.

(* ... in particular after every history of cache operations (all fill orders) *)
Theorem C01_table_after_history :
  forall T ops ign k m (F : matcher_facts m) cur,
  verdict_of cur (diagnostic (storer_of ign k (c_run T ops)) m cur)
             (table (facts_of ign k (c_run T ops) m F cur) cur).
Proof. intros. apply diagnostic_is_table. Qed.

(* the matcher contract holds for the npm (also pnpm catalog, JSR), Cargo and GitHub Actions matchers *)
Definition C01_npm_facts : matcher_facts npm_matcher := npm_facts.
Definition C01_crates_facts : matcher_facts crates_matcher := crates_facts.
Definition C01_gha_facts : matcher_facts gha_matcher := gha_facts.
(* ... and for the go.mod matcher (well-formed = parse_go_version succeeds) *)
Definition C01_go_facts : matcher_facts go_matcher := go_facts.

(* a malformed spec admits no version (so "Invalid" never hides a version that would have been found) *)
Theorem C01_malformed_admits_nothing :
  malformed_admits_nothing npm_matcher npm_facts /\ malformed_admits_nothing crates_matcher crates_facts /\
  malformed_admits_nothing gha_matcher gha_facts.
Proof. exact (conj npm_malformed_admits_nothing (conj crates_malformed_admits_nothing gha_malformed_admits_nothing)). Qed.

(* pyproject.toml (PEP 440 through pep440_rs, any four functions): pypi.rs decides the empty specifier set before
   anything is parsed, so the contract holds on the non-empty specs, and the table with it; the empty spec ("any
   version") shows nothing as long as anything is cached for the package *)
Definition C01_pypi_facts := pypi_facts.
Theorem C01_table_pypi :
  forall specs_ok ver_ok contains ver_le ign k d cur,
  (forall r, resolved_spec k d cur = Some r -> nonempty r = true) ->
  verdict_of cur (diagnostic (storer_of ign k d) (pypi_matcher specs_ok ver_ok contains ver_le) cur)
             (table (facts_on ign k d _ nonempty (pypi_facts specs_ok ver_ok contains ver_le) cur) cur).
Proof. intros. now apply diagnostic_is_table_on. Qed.
Theorem C01_pypi_empty_spec :
  forall specs_ok ver_ok contains ver_le ign k d l,
  get_latest_version ign k d = Some l -> resolved_spec k d [] = Some [] ->
  diagnostic (storer_of ign k d) (pypi_matcher specs_ok ver_ok contains ver_le) [] =
    match get_versions k d with [] => Some (SevError, s_version_ ++ s_not_found) | _ => None end.
Proof. intros specs_ok ver_ok contains ver_le ign k d l HL Hr. exact (pypi_empty_spec specs_ok ver_ok contains ver_le ign k d l HL Hr). Qed.

(* open finding: the empty specifier set hides a malformed latest - the table of the property says Invalid whenever the
   cached latest is not a version, pypi.rs answers "latest" before looking at it *)
Lemma C01_pypi_empty_spec_refuted :
  let k := ([112;121;112;105], [97]) in
  let d := c_run 30000%Z [OStore k [[49;46;48]] 1%Z; OTags k [([108;97;116;101;115;116], [120])] 2%Z] in
  let ver_ok := fun v => beq v [49;46;48] in
  get_latest_version true k d = Some [120] /\ ver_ok [120] = false /\
  diagnostic (storer_of true k d) (pypi_matcher (fun _ => true) ver_ok (fun _ _ => true) (fun _ _ => true)) [] = None.
Proof. vm_compute. repeat split. Qed.

(* Invalid beats NotFound *)
Theorem C01_invalid_beats_not_found :
  forall ign k d m (F : matcher_facts m) cur l,
  get_latest_version ign k d = Some l -> get_dist_tag k cur d = None -> is_potential_dist_tag cur = false ->
  mf_wf m F cur = false ->
  diagnostic (storer_of ign k d) m cur = Some (SevError, s_invalid ++ cur).
Proof. exact invalid_beats_not_found. Qed.

(* unresolved well-known tags and uncached packages are silent *)
Theorem C01_unresolved_tag_silent :
  forall ign k d m cur, get_dist_tag k cur d = None -> is_potential_dist_tag cur = true ->
  diagnostic (storer_of ign k d) m cur = None.
Proof. exact unresolved_tag_is_silent. Qed.
Theorem C01_not_cached_silent :
  forall ign k d m cur, get_latest_version ign k d = None -> diagnostic (storer_of ign k d) m cur = None.
Proof. exact not_cached_is_silent. Qed.

(* a failed cache read never yields a diagnostic *)
Theorem C01_failed_read_silent :
  forall st m cur, s_latest st = None \/ (exists l, s_latest st = Some (Some l) /\ s_tag st cur = None) ->
  diagnostic st m cur = None.
Proof. exact failed_read_no_diagnostic. Qed.

(* open finding: the "does not exist" mark is not consulted - a marked package that still has
   versions keeps getting verdicts (the table of the property says: nothing is shown) *)
Lemma C01_marked_refuted :
  let k := ([110;112;109], [97]) in
  let d := c_run 30000%Z [OStore k [[49;46;48;46;48]; [50;46;48;46;48]] 1%Z; OMark k] in
  (exists e, abs d k = Some e /\ a_nonexistent e = true) /\
  diagnostic (storer_of true k d) npm_matcher [49;46;48;46;48] <> None.
Proof. vm_compute. split; [eexists; split; reflexivity | discriminate]. Qed.

(* non-vacuity of the table: all four verdicts are reachable *)
Example C01_ex_all_cells :
  let k := ([110;112;109], [97]) in
  let d := c_run 30000%Z [OStore k [[49;46;48;46;48]; [50;46;48;46;48]] 1%Z; OTags k [([98;101;116;97], [51;46;48;46;48])] 2%Z] in
  diagnostic (storer_of true k d) npm_matcher [94;49;46;48;46;48] =
    Some (SevWarning, s_update_available ++ [94;49;46;48;46;48] ++ s_arrow ++ [50;46;48;46;48]) /\
  diagnostic (storer_of true k d) npm_matcher [94;50;46;48;46;48] = None /\
  diagnostic (storer_of true k d) npm_matcher [94;53;46;48;46;48] = Some (SevError, s_version_ ++ [94;53;46;48;46;48] ++ s_not_found) /\
  diagnostic (storer_of true k d) npm_matcher [97;98;99] = Some (SevError, s_invalid ++ [97;98;99]) /\
  diagnostic (storer_of true k d) npm_matcher [108;97;116;101;115;116] = None /\
  diagnostic (storer_of true k d) npm_matcher [98;101;116;97] = Some (SevError, s_version_ ++ [98;101;116;97] ++ s_not_found).
Proof. vm_compute. repeat split. Qed.

(* go.mod: compare_go_versions sets the timestamp of a pseudo-version vX.Y.Z-<timestamp>-<commit> aside and
   decides with its own table; against a release this is SemVer precedence of the whole version text
   (whenever that text is a SemVer version), so "the version S is anchored at is below L" is the ordering the
   Go toolchain uses: the pseudo-version is a prerelease of its base (repair fa880b6). *)
Theorem C01_go_pseudo_version_order :
  forall cur latest cv ts lv f,
  GoMatcher.parse_go_version cur = Some (cv, Some ts) -> build cv = [] ->
  GoMatcher.parse_go_version latest = Some (lv, None) -> go_release lv ->
  SemVer.parse (GoMatcher.normalize_go_version cur) = Some f ->
  GoMatcher.compare_to_latest cur latest = GoMatcher.of_cmp (vcmp f lv).
Proof. exact go_pseudo_vs_release. Qed.

(* v1.0.0-20210101000000-abcdefabcdef against v1.0.0 meets the hypotheses, and is outdated *)
Example C01_go_pseudo_ex :
  let cur := [118;49;46;48;46;48;45;50;48;50;49;48;49;48;49;48;48;48;48;48;48;45;97;98;99;100;101;102;97;98;99;100;101;102] in
  let latest := [118;49;46;48;46;48] in
  (exists cv ts lv f, GoMatcher.parse_go_version cur = Some (cv, Some ts) /\ build cv = [] /\
     GoMatcher.parse_go_version latest = Some (lv, None) /\ go_release lv /\
     SemVer.parse (GoMatcher.normalize_go_version cur) = Some f) /\
  GoMatcher.compare_to_latest cur latest = Outdated.
Proof. vm_compute. split; [|reflexivity]. do 4 eexists. repeat split. Qed.

Print Assumptions C01_table.
Print Assumptions C01_invalid_beats_not_found.
Print Assumptions C01_failed_read_silent.
Print Assumptions C01_go_pseudo_version_order.
Print Assumptions C01_malformed_admits_nothing.
Print Assumptions C01_go_facts.
Print Assumptions C01_table_pypi.
Print Assumptions C01_pypi_empty_spec.
