(* C16 - only supported manifest files are checked, each by its own
   ecosystem's rules.  Statements only; proofs are in Proofs/DetectProofs.v. *)
From VL Require Import Lib.Bytes Lib.Reg Model.Detect Spec.UriClass Proofs.DetectProofs Proofs.ResolverProofs.

(* For every URI (any byte string), the model of detect_parser_type - built on
   the tables regenerated from src/parser/types.rs - answers exactly what the
   declarative classification of Spec/UriClass.v prescribes. *)
Theorem C16_detect_meets_spec :
  forall (uri : bytes) (r : option registry), classified uri r <-> detect uri = r.
Proof. exact detect_meets_spec. Qed.

Theorem C16_detect_eq_classify : forall uri : bytes, detect uri = classify uri.
Proof. exact detect_eq_classify. Qed.

(* the run-time oracle [classify] is a faithful rendering of [classified] *)
Theorem C16_oracle_sound : forall uri, classified uri (classify uri).
Proof. exact classify_classified. Qed.
Theorem C16_oracle_complete : forall uri r, classified uri r -> r = classify uri.
Proof. exact classified_functional. Qed.

(* registry names (cache keys) are in bijection with the ecosystems *)
Theorem C16_registry_names_roundtrip : forall r, from_str (as_str r) = Some r.
Proof. exact from_str_as_str. Qed.
Theorem C16_registry_names_injective : forall r1 r2, as_str r1 = as_str r2 -> r1 = r2.
Proof. exact as_str_injective. Qed.

(* every ecosystem is wired to its own parser and matcher and to the registry its
   packages come from (table regenerated from src/lsp/resolver.rs and the components) *)
Theorem C16_resolver_consistent :
  forall k, exists p m g, lookup k = Some (p, m, g) /\ p = k /\ m = k /\ g = source_of k.
Proof. exact resolver_consistent. Qed.

(* non-vacuity: the classes are inhabited, including the look-alikes *)
Example C16_ex_workflow :
  detect [47;114;47;46;103;105;116;104;117;98;47;119;111;114;107;102;108;111;119;115;47;99;105;46;121;109;108]
  = Some GitHubActions.  (* /r/.github/workflows/ci.yml *)
Proof. reflexivity. Qed.
Example C16_ex_lookalike_dir :
  detect [47;114;47;120;46;103;105;116;104;117;98;47;119;111;114;107;102;108;111;119;115;47;99;105;46;121;109;108]
  = None.  (* /r/x.github/workflows/ci.yml *)
Proof. reflexivity. Qed.
Example C16_ex_lookalike_name :
  detect [47;109;121;112;97;99;107;97;103;101;46;106;115;111;110] = None. (* /mypackage.json *)
Proof. reflexivity. Qed.

Print Assumptions C16_detect_meets_spec.
Print Assumptions C16_detect_eq_classify.
Print Assumptions C16_oracle_sound.
Print Assumptions C16_oracle_complete.
Print Assumptions C16_registry_names_roundtrip.
Print Assumptions C16_registry_names_injective.
Print Assumptions C16_resolver_consistent.
