(* C13 - the last published diagnostics match the document's latest text and the cache.
   Statements only; proofs in Proofs/BackendProofs.v.

   [run c s evs] executes any sequence of didOpen / didChange / didClose / registry replies (in any
   order relative to the edits) / code-action requests on the backend event machine
   (Model/Backend.v).  A publication records the revision and the cache version it was computed
   from; [last_pub u outs acc] is the most recent one for [u]. *)
From Coq Require Import ZArith.
From VL Require Import Lib.Bytes Model.Backend Proofs.BackendProofs.

(* for every event sequence on any number of documents: each open (supported, enabled) document's most
   recent publication was computed from its latest text - never from an earlier revision *)
Theorem C13_last_publication_is_current :
  forall c cached0 evs, c_has_store c = true ->
  let '(s', outs) := run c (init_state cached0) evs in
  forall u t, doc_rev s' u = Some t -> c_supported c u = true -> c_enabled c u = true ->
  exists p, last_pub u outs None = Some p /\ pb_rev p = t.
Proof. exact last_publication_is_current_from_start. Qed.

(* for every interleaving of edits of one document with its registry replies: the last publication was
   computed from the latest text AND the current cache version, at every point - in particular once all
   triggered fetches have finished *)
Theorem C13_single_document_converges :
  forall c u evs, c_has_store c = true -> c_supported c u = true -> c_enabled c u = true ->
  forallb (only_uri u) evs = true ->
  forall s lastp, Converged u s lastp ->
  let '(s', outs) := run c s evs in Converged u s' (last_pub u outs lastp).
Proof. exact single_document_converges. Qed.

(* open finding: with two documents that share an uncached package, the second document's task finds
   the package claimed, fetches nothing and never re-publishes: the second document does not converge *)
Lemma C13_two_documents_refuted :
  let c := mkCfg (fun _ => true) (fun _ => true) true (fun _ => Some 7) in
  let '(s, outs) := run c (init_state []) [EvOpen 1 10; EvOpen 2 20; EvReply 7 RVersions] in
  fetching s = [] /\ doc_rev s 2 = Some 20 /\
  option_map pb_cver (last_pub 2 outs None) = Some 0 /\ cver s = 1.
Proof. vm_compute. repeat split. Qed.

(* non-vacuity: open, edit, then the first reply - the re-publication uses the edited text *)
Example C13_ex_edit_before_reply :
  let c := mkCfg (fun _ => true) (fun _ => true) true (fun t => Some 7) in
  let '(s, outs) := run c (init_state []) [EvOpen 1 10; EvChange 1 11; EvReply 7 RVersions] in
  last_pub 1 outs None = Some (mkPub 1 11 1) /\ Converged 1 s (last_pub 1 outs None).
Proof. vm_compute. split; [reflexivity|]. split; [intros f []|]. intros t [= <-]. eexists. repeat split. Qed.

Print Assumptions C13_last_publication_is_current.
Print Assumptions C13_single_document_converges.
