(* C13 - the last published diagnostics match the document's latest text and the cache.
   Statements only; proofs in Proofs/BackendProofs.v.

   [run c s evs] executes any sequence of didOpen / didChange / didClose / registry replies (in any
   order relative to the edits) / code-action requests on the backend event machine
   (Model/Backend.v).  A publication records the revision and the cache version it was computed
   from; [last_pub u outs acc] is the most recent one for [u]. *)
From Coq Require Import ZArith.
From VL Require Import Lib.Bytes Model.Backend Proofs.BackendProofs Proofs.MultiDocProofs.

(* for every event sequence on any number of documents: each open (supported, enabled) document's most
   recent publication was computed from its latest text - never from an earlier revision *)
Theorem C13_last_publication_is_current :
  forall c cached0 evs, c_has_store c = true ->
  let '(s', outs) := run c (init_state cached0) evs in
  forall u t, doc_rev s' u = Some t -> c_supported c u = true -> c_enabled c u = true ->
  exists p, last_pub u outs None = Some p /\ pb_rev p = t.
Proof. exact last_publication_is_current_from_start. Qed.

(* for every interleaving of edits of one document with its registry replies: the last publication was
   computed from the latest text AND the current cache version, at every point - in particular once all
   triggered fetches have finished *)
Theorem C13_single_document_converges :
  forall c u evs, c_has_store c = true -> c_supported c u = true -> c_enabled c u = true ->
  forallb (only_uri u) evs = true ->
  forall s lastp, Converged u s lastp ->
  let '(s', outs) := run c s evs in Converged u s' (last_pub u outs lastp).
Proof. exact single_document_converges. Qed.

(* any number of documents, any order of edits, closes and registry replies: as long as no document is given a text
   whose uncached dependency another open document also depends on or has in flight (clean_run; the complement is the
   open finding below), every open document's last publication was computed from its latest text and not before its
   dependency became cached ([since_run] is the ghost record of when each package became cached) *)
Theorem C13_documents_current :
  forall c cached0 evs, c_has_store c = true -> clean_run c (init_state cached0) evs ->
  forall u t, doc_rev (fst (run c (init_state cached0) evs)) u = Some t -> c_supported c u = true -> c_enabled c u = true ->
  exists P, last_pub u (snd (run c (init_state cached0) evs)) None = Some P /\ pb_rev P = t /\
    forall p n, pkg_of c t = Some p -> In (p, n) (since_run c (init_state cached0) evs []) -> n <= pb_cver P.
Proof. exact documents_current. Qed.
(* the run of the open finding is outside the hypothesis ... *)
Lemma C13_two_documents_not_clean :
  let c := mkCfg (fun _ => true) (fun _ => true) true (fun _ => Some 7) in
  ~ clean_run c (init_state []) [EvOpen 1 10; EvOpen 2 20; EvReply 7 RVersions].
Proof.
  intros c [_ [[H|[_ H]] _]]; [discriminate|]. specialize (H 1 (or_introl eq_refl)). discriminate.
Qed.
(* ... and two documents with different dependencies are inside it: both are re-published when their packages arrive *)
Example C13_ex_two_documents :
  let c := mkCfg (fun _ => true) (fun _ => true) true (fun t => Some (t / 10)) in
  let evs := [EvOpen 1 10; EvOpen 2 20; EvReply 2 RVersions; EvChange 1 11; EvReply 1 RVersions] in
  clean_run c (init_state []) evs /\
  last_pub 1 (snd (run c (init_state []) evs)) None = Some (mkPub 1 11 2) /\
  last_pub 2 (snd (run c (init_state []) evs)) None = Some (mkPub 2 20 1) /\
  since_run c (init_state []) evs [] = [(1, 2); (2, 1)].
Proof.
  split; [apply clean_run_b_sound; vm_compute; reflexivity|vm_compute; repeat split].
Qed.

(* open finding: with two documents that share an uncached package, the second document's task finds
   the package claimed, fetches nothing and never re-publishes: the second document does not converge *)
Lemma C13_two_documents_refuted :
  let c := mkCfg (fun _ => true) (fun _ => true) true (fun _ => Some 7) in
  let '(s, outs) := run c (init_state []) [EvOpen 1 10; EvOpen 2 20; EvReply 7 RVersions] in
  fetching s = [] /\ doc_rev s 2 = Some 20 /\
  option_map pb_cver (last_pub 2 outs None) = Some 0 /\ cver s = 1.
Proof. vm_compute. repeat split. Qed.

(* non-vacuity: open, edit, then the first reply - the re-publication uses the edited text *)
Example C13_ex_edit_before_reply :
  let c := mkCfg (fun _ => true) (fun _ => true) true (fun t => Some 7) in
  let '(s, outs) := run c (init_state []) [EvOpen 1 10; EvChange 1 11; EvReply 7 RVersions] in
  last_pub 1 outs None = Some (mkPub 1 11 1) /\ Converged 1 s (last_pub 1 outs None).
Proof. vm_compute. split; [reflexivity|]. split; [intros f []|]. intros t [= <-]. eexists. repeat split. Qed.

Print Assumptions C13_last_publication_is_current.
Print Assumptions C13_single_document_converges.
Print Assumptions C13_documents_current.
