"""C05 - every reported location is in bounds and covers the dependency's version text."""
import collections
import random
from . import common as C
from . import parselib as P
from . import manifests as M

PID = 'C05'
PINS = C.load_pins('C05')
PROOF_FILES = ['Proofs/CstProofs.v', 'Proofs/JsonWalkProofs.v', 'Proofs/TomlWalkProofs.v', 'Proofs/PyWalkProofs.v', 'Proofs/YamlWalkProofs.v', 'Proofs/GhaWalkProofs.v', 'Proofs/GhaLocProofs.v', 'Proofs/PyLocProofs.v', 'Proofs/TotalProofs.v', 'Proofs/GoModProofs.v', 'Proofs/ParserPins.v', 'Props/C05.v']
CLASS_FINDING = {
    'utf16': 'C05-byte-columns-sent-as-utf16',
    'gha-quoted-uses': 'C05-quoted-uses-range-shifted',
    'yaml-multiline-scalar': 'C05-yaml-multiline-scalar-position',
}


def structural(text_b, p):
    """None when the location is internally consistent and inside the document"""
    if not (p['start'] <= p['end'] <= len(text_b)):
        return f'range [{p["start"]},{p["end"]}) is inverted or outside the document of {len(text_b)} bytes'
    nlines = text_b.count(b'\n') + 1
    if p['line'] >= nlines:
        return f'line {p["line"]} does not exist ({nlines} lines)'
    ls = text_b.rfind(b'\n', 0, p['start']) + 1
    if text_b.count(b'\n', 0, p['start']) != p['line'] or p['start'] - ls != p['col']:
        return f'line/column ({p["line"]},{p["col"]}) is not the position of offset {p["start"]} (which is line {text_b.count(chr(10).encode(), 0, p["start"])}, byte column {p["start"] - ls})'
    return None


def coverage(rep, doc, pkgs):
    tb = doc.text.encode('utf-8')
    doc_cls = set(doc.classes)
    for d in doc.declared:
        tok = d['token']
        hits = [p for p in pkgs if p['start'] < tok[1] + 2 and p['end'] > tok[0] - 2 and p['line'] == d['line']] or \
               [p for p in pkgs if p['start'] <= tok[1] and p['end'] >= tok[0]]
        if len(hits) != 1:
            continue        # not reported (C04's business) or ambiguous
        p = hits[0]
        cls = set(d['classes']) | doc_cls
        covered = (p['start'], p['end'])
        want = (d['start'], d['end'])
        problems = []
        if structural(tb, p):
            problems.append(('structural', structural(tb, p)))
        elif b'\n' in tb[p['start']:p['end']]:
            problems.append(('structural', 'the range of a well-formed manifest spans a line break'))
        else:
            exact_needed = not (cls & {'alias-token', 'pep508-no-spec', 'pep508-spaced-spec', 'pep508-marker-operator', 'json-escape', 'toml-literal-string'}) and doc.fmt != 'pyproject_toml'
            if exact_needed and covered != want:
                problems.append(('cover', f'range covers {tb[covered[0]:covered[1]].decode("utf-8", "replace")!r}, the spec text is {tb[want[0]:want[1]].decode("utf-8", "replace")!r}'))
            elif not exact_needed and not (tok[0] <= covered[0] and covered[1] <= tok[1] and covered[0] <= want[0] and want[1] <= covered[1]):
                problems.append(('cover', f'range {covered} is not inside the value token {tok} or does not cover the spec text {want}'))
            # character positions in UTF-16 units
            ls = tb.rfind(b'\n', 0, p['start']) + 1
            col16 = len(tb[ls:p['start']].decode('utf-8', 'replace').encode('utf-16-le')) // 2
            if p['col'] != col16:
                problems.append(('utf16', f'character {p["col"]} is the byte column; the UTF-16 column of offset {p["start"]} is {col16}'))
        for kind, msg in problems:
            explained = None
            if kind == 'utf16':
                explained = 'utf16'
            else:
                for c in ('gha-quoted-uses',):
                    if c in cls:
                        explained = c
            if explained:
                rep.known(CLASS_FINDING[explained], {'format': doc.fmt, 'dependency': d['name'], 'problem': msg, 'line_text': doc.text.split('\n')[d['line']][:200] if d.get('line') is not None else ''})
            elif len(rep.violations) < 6:
                rep.violation(f'{doc.fmt}: location of {d["name"]!r}: {msg}', {'format': doc.fmt, 'document': doc.text, 'dependency': {k: (sorted(v) if isinstance(v, set) else v) for k, v in d.items()}, 'reported': p})


def run(tier, seed):
    rep = C.Report(PID, tier, seed, 'proof')
    proofs_ok = C.standard_proof_phase(rep, ['parsers'], ['theories/Props/C05.vo', 'theories/Proofs/ParserPins.vo', 'theories/Run/ParseRun.vo', 'theories/Run/ManifestOracle.vo'], 'Props.C05', PINS['theorems'], PROOF_FILES, [], imports=PINS['imports'])
    hok, hlog = C.build_harness()
    if not hok:
        rep.broke('harness does not build against /repo', hlog[-1500:])
        return rep.finish()
    rnd = random.Random(seed * 7919 + 5)
    per = 50 if tier == 'quick' else 1200
    if not proofs_ok:
        per *= 4
    docs = [g(rnd) for fmt, g in M.GENERATORS.items() for _ in range(per)]
    pairs = [(d.fmt, d.text) for d in docs]
    # malformed stream: every kind of damage on generated manifests, plus every prefix of a few documents
    mal = []
    for fmt, g in M.GENERATORS.items():
        for _ in range(per):
            t = g(rnd).text
            for _ in range(rnd.randrange(1, 3)):
                t = M.mutate(rnd, t)
            mal.append((fmt, t))
        t = g(rnd).text
        step = max(1, len(t) // (40 if tier == 'quick' else 400))
        mal += [(fmt, t[:k]) for k in range(0, len(t), step)]
        if fmt in ('github_actions', 'pnpm_workspace'):
            # YAML scalars that span lines (valid YAML; as a uses: / catalog value unusual, possibly not a manifest any more)
            for _ in range(10 if tier == 'quick' else 250):
                t = M.multiline_yaml(rnd, fmt, g)
                if t:
                    mal.append((fmt, t))
    outs, err = P.run_docs(pairs + mal)
    if err:
        rep.broke('harness stream parse failed', err)
    outs_w, outs_m = outs[:len(pairs)], outs[len(pairs):]
    ncov = 0
    for d, o in zip(docs, outs_w):
        pk = o['out']['pkgs']
        if isinstance(pk, list):
            coverage(rep, d, pk)
            ncov += len(pk)
    nstruct, panics = 0, 0
    for (fmt, t), o in zip(mal, outs_m):
        pk = o['out']['pkgs']
        if not isinstance(pk, list):
            panics += 1     # C06's business
            continue
        tb = t.encode('utf-8')
        for p in pk:
            nstruct += 1
            s = structural(tb, p)
            if s:
                # known class: the dependency's YAML scalar spans lines (a line break between the start of the reported
                # line and the end of the reported range, or inside the reported name / version)
                lines_b = tb.split(b'\n')
                ls0 = sum(len(x) + 1 for x in lines_b[:p['line']]) if p['line'] < len(lines_b) else len(tb)
                if fmt in ('github_actions', 'pnpm_workspace') and (b'\n' in tb[ls0:p['end']] or '\n' in p['name'] or '\n' in p['version']):
                    rep.known(CLASS_FINDING['yaml-multiline-scalar'], {'format': fmt, 'document': t[:600], 'reported': p, 'problem': s})
                    continue
                if len(rep.violations) < 6:
                    rep.violation(f'{fmt}: on a damaged document a reported location is unsound: {s}', {'format': fmt, 'document': t, 'reported': p})
    if proofs_ok and outs:
        allp = pairs + mal
        bad, nev = P.correspondence(rep, PID, allp, outs)
        for i in sorted(bad)[:1]:
            what = 'a tree violates the CST contract (wf_cst / string tokens)' if bad[i] == 3 else 'correspondence Model.Walks / Model.GoMod vs the parsers'
            rep.broke(what, {'first': {'format': allp[i][0], 'document': allp[i][1], 'impl': outs[i]['out']['pkgs'], 'code': bad[i]}, 'count': len(bad)})
        rep.cov['traces_validated_against_impl'] = nev - len(bad)
        # how many JSON trees are outside the hypothesis of the structural theorems (they are still checked by the oracle above)
        jt = [P.case_term(f, t, o['out']) for (f, t), o in zip(allp, outs) if f in ('package_json', 'deno_json') and len(t.encode()) < 6000]
        outside, errs = C.coq_eval_verdicts(PID, 'contract', P.IMPORTS, 'parse_case', jt, 'parse_strings_contract')
        for e in errs:
            rep.broke('contract evaluation failed', e)
        rep.cov['streams']['json_structural_theorem'] = {'trees': len(jt), 'inside_hypothesis': len(jt) - len(outside), 'outside_hypothesis_checked_by_oracle_only': len(outside)}
    # C05_github_actions_covers_ref observed on the real trees: hypotheses and conclusion evaluated in Coq on the model's walk
    if proofs_ok and outs:
        gt = [f"({C.g_bytes(t)}, {P.g_node(o['out']['cst'])})" for (f, t), o in zip(pairs, outs_w)
              if f == 'github_actions' and isinstance(o['out']['pkgs'], list) and o['out'].get('cst') is not None]
        gbad, gerrs = C.coq_eval_verdicts(PID, 'ghaloc', 'From Coq Require Import ZArith.\nFrom VL Require Import Lib.Bytes Lib.Cst Run.ManifestOracle.\n', 'bytes * node', gt, 'gha_loc_oracle')
        for e in gerrs:
            rep.broke('evaluation of gha_loc_oracle failed', e)
        gc = collections.Counter(gbad.values())
        if gc.get(6):
            rep.broke('a workflow inside the hypotheses of C05_github_actions_covers_ref has a location that is neither exact nor in the quoted class (contradicts the theorem: the oracle or the build is inconsistent)', {'count': gc[6]})
        rep.cov['streams']['gha_location_theorem'] = {'trees': len(gt), 'all_ranges_exact': len(gt) - len(gbad), 'some_range_in_quoted_class': gc.get(7, 0),
                                                      'outside_hypotheses': gc.get(8, 0), 'no_denotation': gc.get(4, 0)}
    # C05_pyproject_structural on real trees (well-formed and damaged documents): hypotheses (sliceable nodes, quoted string
    # tokens, pep508_rs answers sane in the sense of pep_sane_at) and conclusion evaluated in Coq on the model's walk
    if proofs_ok and outs:
        pt = []
        for (f, t), o in zip(pairs + mal, outs):
            if f != 'pyproject_toml' or not isinstance(o['out']['pkgs'], list) or o['out'].get('cst') is None or len(t.encode()) > 4000:
                continue
            tape_e = o['out'].get('pep508', [])
            if any(a == 'panic' for _, a in tape_e):
                continue
            tape = C.g_list([C.g_pair(C.g_bytes(s_), ('None' if (a == 'err' or a.get('url')) else f"(Some ({C.g_bytes(a['name'])}, {C.g_bytes(M.norm_pep_spec(a['spec']))}))")) for s_, a in tape_e])
            pt.append(f"({C.g_bytes(t)}, {P.g_node(o['out']['cst'])}, {tape})")
        pt = pt[:(150 if tier == 'quick' else 3000)]
        pbad, perrs = C.coq_eval_verdicts(PID, 'pyloc', 'From Coq Require Import ZArith.\nFrom VL Require Import Lib.Bytes Lib.Cst Run.ManifestOracle.\n',
                                          'bytes * node * list (bytes * option (bytes * bytes))', pt, 'py_loc_oracle')
        for e in perrs:
            rep.broke('evaluation of py_loc_oracle failed', e)
        pc = collections.Counter(pbad.values())
        if pc.get(6):
            rep.broke('a pyproject tree inside the hypotheses of C05_pyproject_structural has an unsound location (contradicts the theorem: the oracle or the build is inconsistent)', {'count': pc[6]})
        if pc.get(9):
            rep.broke('an answer of pep508_rs contradicts the assumption pep_sane_at of C05_pyproject_structural (the trusted statement about the library is wrong)', {'count': pc[9]})
        rep.cov['streams']['pyproject_location_theorem'] = {'trees': len(pt), 'hypotheses_and_conclusion_hold': len(pt) - len(pbad), 'outside_hypotheses': pc.get(8, 0)}
    rep.cov.update({'evaluations': len(outs), 'distinct_nontrivial': len({t for _, t in pairs + mal}),
                    'rule': 'well-formed manifests of the 7 formats under random layouts (coverage part: the reported range against the generator\'s record of where the spec text sits, UTF-16 columns) '
                            'and damaged documents (truncation at sampled prefixes, token splicing, Unicode injection, deletion, block moves; structural part); non-trivial = distinct documents'})
    rep.cov['streams']['locations'] = {'well_formed_documents': len(pairs), 'locations_checked_for_coverage': ncov, 'damaged_documents': len(mal), 'locations_checked_structurally': nstruct, 'parser_panics_seen': panics}
    rep.cov['samples'] = [{'format': f, 'document': t[:300]} for f, t in mal[:2]]
    rep.assumptions = ['tree-sitter is not modelled: theorems quantify over all trees satisfying wf_cst and string_nodes_ok, both evaluated on every tree of the run (also on damaged documents)',
                       'the structural theorems are proved for the JSON manifests; the other walks are tied by correspondence and the per-location oracle']
    if tier == 'thorough' and proofs_ok:
        C.coqchk(rep, ['VL.Props.C05'])
    return rep.finish()
