"""C18 - an unusable cache disables checking; it never crashes or misinforms."""
import json
import random
from . import common as C

PID = 'C18'
PINS = C.load_pins('C18')
PROOF_FILES = ['Proofs/DataDirProofs.v', 'Proofs/BackendProofs.v', 'Proofs/VerdictProofs.v', 'Props/C18.v']
IMPORTS = 'From VL Require Import Lib.Bytes Model.DataDir Run.DataDirRun.'


def run(tier, seed):
    rep = C.Report(PID, tier, seed, 'proof')
    proofs_ok = C.standard_proof_phase(rep, ['detect', 'checker'], ['theories/Props/C18.vo', 'theories/Run/DataDirRun.vo'], 'Props.C18', PINS['theorems'], PROOF_FILES, [], imports=PINS['imports'])
    hok, hlog = C.build_harness()
    if not hok:
        rep.broke('harness does not build against /repo', hlog[-1500:])
        return rep.finish()
    rnd = random.Random(seed)
    # ---- (a) the location rule, in child processes with a controlled environment ----
    dirs = ['/tmp/x', '/data', '/a b/c', '/é/ü', '/x/', '/', 'rel/dir', '/very/' + 'long/' * 30 + 'p', '']
    envs = [{'xdg': x, 'home': h} for x in dirs + [None] for h in ['/home/u', '/root', '/h/', '/h/é']]
    outs, err = C.run_harness('datadir', 0, 0, stdin='\n'.join(json.dumps(e) for e in envs) + '\n')
    if err:
        rep.broke('harness datadir', err)
    terms = []
    for c in outs or []:
        i, o = c['in'], c['out']
        if o == 'failed':
            rep.violation('the server could not even resolve its data directory', {'env': i})
            continue
        terms.append(C.g_pair(C.g_opt(i['xdg'], C.g_bytes), C.g_opt(i['home'], C.g_bytes), C.g_bytes(o['data_dir']), C.g_bytes(o['db_path'])))
        # the documented rule, for values that name a directory
        x, h = i['xdg'], i['home']
        if x is not None and x != '' and not x.endswith('/'):
            want = x + '/version-lsp'
        elif x is None and h and not h.endswith('/'):
            want = h + '/.local/share/version-lsp'
        else:
            want = None
        if want is not None and (o['data_dir'] != want or o['db_path'] != want + '/versions.db'):
            rep.violation(f'data directory {o["data_dir"]!r} does not follow the documented rule (expected {want!r})', {'env': i, 'impl': o})
    bad, errs = C.coq_eval_verdicts(PID, 'datadir', IMPORTS, 'datadir_case', terms, 'datadir_corr')
    for e in errs:
        rep.broke('datadir model evaluation failed', e)
    for k in sorted(bad)[:3]:
        rep.broke('correspondence Model.DataDir vs config::data_dir / db_path', outs[k])
    # ---- (b) no cache at all: the production constructor with an unusable data directory ----
    doc = '{\n  "dependencies": {\n    "lodash": "1.0.0"\n  }\n}'
    script = {'registry': {}, 'prefill': [], 'no_store': True, 'config': 'none', 'gated': False,
              'steps': [{'op': 'open', 'uri': 'file:///w/package.json', 'text': doc}, {'op': 'change', 'uri': 'file:///w/package.json', 'text': '\n' + doc},
                        {'op': 'action', 'uri': 'file:///w/package.json', 'line': 3, 'character': 16}, {'op': 'open', 'uri': 'file:///w/notes.txt', 'text': doc},
                        {'op': 'open', 'uri': 'file:///w/Cargo.toml', 'text': '[dependencies]\nserde = "1.0.0"\n'}, {'op': 'close', 'uri': 'file:///w/package.json'}]}
    bouts, err = C.run_harness('backend', 0, 0, stdin=json.dumps(script) + '\n', timeout=600)
    if err or not bouts:
        rep.broke('harness backend (no store)', err)
    else:
        steps = bouts[0]['out']['steps']
        for st, so in zip(script['steps'], steps):
            pubs = [t for t in so['traffic'] if t['kind'] == 'publish']
            warns = [t for t in so['traffic'] if t['kind'] == 'show' and 'Cache not available' in str(t['message'])]
            desc = {'step': st, 'traffic': so['traffic'], 'result': so['result']}
            if pubs:
                rep.violation('diagnostics were published although the server has no cache', desc)
            if st['op'] in ('open', 'change') and st['uri'].endswith(('package.json', 'Cargo.toml')) and len(warns) != 1:
                rep.violation(f'expected exactly one "cache not available" warning for {st["op"]}, got {len(warns)}', desc)
            if st['op'] == 'open' and st['uri'].endswith('notes.txt') and so['traffic']:
                rep.violation('an unsupported document produced traffic', desc)
            if st['op'] == 'action' and so['result'] != {'ok': None}:
                rep.violation('a code action was answered with something other than "none" without a cache', desc)
        if bouts[0]['out']['requested']:
            rep.violation('registry requests were made without a cache', {'requested': bouts[0]['out']['requested']})
    # ---- (c) damaged database files ----
    douts, err = C.run_harness('damage', seed, 25 if tier == 'quick' else 600, timeout=3000)
    if err:
        rep.broke('harness damage', err)
    dstats = {'patterns': 0, 'opened': 0, 'rejected': 0, 'diagnostics_lost': 0}
    for c in douts or []:
        i, o = c['in'], c['out']
        dstats['patterns'] += 1
        if o == 'panic':
            rep.violation(f'panic while opening / reading a damaged database ({i["pattern"]})', {'pattern': i['pattern']})
            continue
        if not o.get('opened'):
            dstats['rejected'] += 1
            continue
        dstats['opened'] += 1
        if 'diags' not in o:
            continue
        if o['diags'] == 'panic':
            rep.violation(f'panic while computing diagnostics over a damaged database ({i["pattern"]})', {'pattern': i['pattern']})
            continue
        healthy = [tuple(d) for d in i['healthy']]
        # a damaged cache may lose diagnostics, never invent them: on dependencies whose rows an independent strict
        # read can still read, exactly the diagnostics of that readable data; on the others, none
        unread = set(o.get('unreadable_lines', []))
        backed = [tuple(d) for d in o.get('backed_by_readable_data', [])] if isinstance(o.get('backed_by_readable_data'), list) else None
        tagfail = set(o.get('tag_read_failed_lines', []))
        for d in o['diags']:
            ok = (tuple(d) in backed and d[0] not in unread) if backed is not None else tuple(d) in healthy
            if ok and d[0] in tagfail:
                # open finding: a failing read of the 'latest' tag is treated as "no tag" and the version scan decides
                rep.known('C18-tag-read-error-ignored', {'damage': i['pattern'], 'published': d})
            if not ok:
                rep.violation(f'a diagnostic not backed by data readable from the damaged database was published ({i["pattern"]}): {d}',
                              {'damage': i['pattern'], 'document': i['document'], 'published': o['diags'], 'diagnostics_backed_by_readable_data': o.get('backed_by_readable_data'),
                               'lines_whose_rows_cannot_be_read': sorted(unread), 'diagnostics_of_the_intact_database': i['healthy']})
                break
        dstats['diagnostics_lost'] += len(healthy) - len(o['diags'])
    # ---- (d) a store that starts failing after a healthy start ----
    fouts, err = C.run_harness('faultdiag', seed, 120 if tier == 'quick' else 5000, timeout=3000)
    if err:
        rep.broke('harness faultdiag', err)
    fstats = {'cases': 0, 'with_faults': 0}
    for c in fouts or []:
        i, o = c['in'], c['out']
        fstats['cases'] += 1
        if o['got'] == 'panic':
            rep.violation('panic when a cache read fails', {'input': i})
            continue
        failing = {n for (_, n) in i['faults']}
        fstats['with_faults'] += 1 if failing else 0
        lines = {n: 2 + k for k, (n, _) in enumerate(i['deps'])}
        want = [d for d in o['healthy'] if not any(lines[n] == d[0] for n in failing)]
        # dependencies whose reads fail may lose their diagnostic (a read that is never reached cannot fail);
        # every other dependency keeps exactly its healthy diagnostic, and nothing new appears
        extra = [d for d in o['got'] if d not in o['healthy']]
        missing = [d for d in want if d not in o['got']]
        if extra or missing:
            rep.violation('diagnostics under failing cache reads differ from the healthy ones for dependencies whose reads succeed' if missing else
                          'a diagnostic was published that the healthy cache does not give', {'input': i, 'impl': o, 'unexpected': extra, 'missing': missing})
    # ---- (e) the production entry point (run_server, what main() runs) in a child process over stdio ----
    import os, shutil, tempfile
    base = tempfile.mkdtemp(prefix='c18srv', dir='/var/tmp')
    sstats = {'environments': 0, 'unusable': 0}
    try:
        open(os.path.join(base, 'afile'), 'w').write('x')
        os.makedirs(os.path.join(base, 'ro'), exist_ok=True)
        os.makedirs(os.path.join(base, 'good'), exist_ok=True)
        os.makedirs(os.path.join(base, 'dbdir', 'version-lsp', 'versions.db'), exist_ok=True)      # a directory in place of the database
        os.makedirs(os.path.join(base, 'logdir', 'version-lsp', 'version-lsp.log'), exist_ok=True)  # a directory in place of the log file
        senvs = [({'xdg': os.path.join(base, 'good'), 'home': None}, False), ({'xdg': os.path.join(base, 'afile'), 'home': None}, True),
                 ({'xdg': os.path.join(base, 'afile', 'sub'), 'home': None}, True), ({'xdg': '/proc/nonexistent/x', 'home': None}, True),
                 ({'xdg': None, 'home': os.path.join(base, 'afile')}, True), ({'xdg': os.path.join(base, 'dbdir'), 'home': None}, True),
                 ({'xdg': os.path.join(base, 'logdir'), 'home': None}, False), ({'xdg': '', 'home': os.path.join(base, 'good')}, False)]
        # intact databases at the documented location, in every layout a release of the server can have left behind
        # (current; legacy without the later columns; an upgrade interrupted between ALTER TABLE and PRAGMA user_version):
        # they are used as they are - no warning, and the diagnostic their content implies
        import sqlite3, time as _time

        def mkdb(name, fetching_since, not_found, user_version):
            d = os.path.join(base, name, 'version-lsp')
            os.makedirs(d, exist_ok=True)
            cn = sqlite3.connect(os.path.join(d, 'versions.db'))
            cols = 'id INTEGER PRIMARY KEY AUTOINCREMENT, registry_type TEXT NOT NULL, package_name TEXT NOT NULL, updated_at INTEGER NOT NULL'
            cols += ', fetching_since INTEGER' if fetching_since else ''
            cols += ', not_found INTEGER NOT NULL DEFAULT 0' if not_found else ''
            cn.execute(f'CREATE TABLE packages ({cols}, UNIQUE(registry_type, package_name))')
            cn.execute('CREATE TABLE versions (id INTEGER PRIMARY KEY AUTOINCREMENT, package_id INTEGER NOT NULL, version TEXT NOT NULL, FOREIGN KEY (package_id) REFERENCES packages(id) ON DELETE CASCADE, UNIQUE(package_id, version))')
            cn.execute('CREATE TABLE dist_tags (id INTEGER PRIMARY KEY AUTOINCREMENT, package_id INTEGER NOT NULL, tag_name TEXT NOT NULL, version TEXT NOT NULL, FOREIGN KEY (package_id) REFERENCES packages(id) ON DELETE CASCADE, UNIQUE(package_id, tag_name))')
            cn.execute("INSERT INTO packages (registry_type, package_name, updated_at) VALUES ('npm', 'lodash', ?)", (int(_time.time() * 1000),))
            cn.executemany('INSERT INTO versions (package_id, version) VALUES (1, ?)', [('1.0.0',), ('1.0.1',)])
            cn.execute(f'PRAGMA user_version = {user_version}')
            cn.commit()
            cn.close()
            return {'xdg': os.path.join(base, name), 'home': None, 'intact_db': name}
        intact = [mkdb('db_current', True, True, 2), mkdb('db_legacy_v0', False, False, 0), mkdb('db_v0_with_columns', True, True, 0),
                  mkdb('db_v1', True, False, 1), mkdb('db_v1_upgrade_interrupted', True, True, 1)]
        senvs += [(e, False) for e in intact]
        souts, err = C.run_harness('server', 0, 0, stdin='\n'.join(json.dumps(e) for e, _ in senvs) + '\n', timeout=600)
        if err:
            rep.broke('harness server', err)
        for (env, unusable), o in zip(senvs, souts or []):
            r = o['out']
            sstats['environments'] += 1
            sstats['unusable'] += 1 if unusable else 0
            if not (r['initialized'] and r['answered_action'] and r['alive_after_requests']):
                rep.violation(f'the server does not start or stops answering with XDG_DATA_HOME={env["xdg"]!r} HOME={env["home"]!r}: {r["stderr"][:200]!r}', {'environment': env, 'observed': r})
            elif unusable and not r['warned']:
                rep.violation('no cache can be opened but the user is not told that version checking is unavailable', {'environment': env, 'observed': r})
            elif env.get('intact_db') and (r['warned'] or not r.get('update_msg')):
                rep.violation(f'an intact database at the documented location (layout {env["intact_db"]}) is not used: ' +
                              ('the server says no cache is available' if r['warned'] else 'the diagnostic its content implies is not published'), {'environment': env, 'observed': r})
    finally:
        shutil.rmtree(base, ignore_errors=True)
    rep.cov['streams']['server_process'] = sstats
    rep.cov.update({'evaluations': len(outs or []) + dstats['patterns'] + fstats['cases'] + len(script['steps']), 'distinct_nontrivial': dstats['opened'] + fstats['with_faults'],
                    'rule': 'data-directory variables: 10 XDG values x 4 HOME values in child processes; production constructor with an unusable data directory driven through the '
                            'in-process LspService; damage: truncation at every page boundary, zeroing and garbage-filling every page, random overwrites, non-database file, directory in '
                            'place of the file, on a multi-page database (non-trivial = patterns that still open); failing reads: a fault at a random read site of a random subset of 4 dependencies',
                    'traces_validated_against_impl': len(terms) - len(bad)})
    rep.cov['streams'].update({'datadir': {'environments': len(outs or [])}, 'damage': dstats, 'faultdiag': fstats})
    rep.cov['samples'] = [envs[0], (douts or [{}])[3].get('in', {}).get('pattern'), (fouts or [{}])[0].get('in', {}).get('faults')]
    rep.assumptions = ['which faults a damaged file produces is SQLite\'s and the OS\'s behaviour: exercised by the damage stream, not proved',
                       'dirs::home_dir() falls back to the password database when HOME is unset; only HOME-set environments are compared with the rule',
                       'file locking by another process and read-only files are not in the stream']
    if tier == 'thorough' and proofs_ok:
        C.coqchk(rep, ['VL.Props.C18'])
    return rep.finish()
