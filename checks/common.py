"""Shared machinery of the checks: translator, Coq build + audit, harness build
and runs, evaluation of the Gallina model / reference spec on the cases the
implementation ran, classification, evidence and VIOLATION reporting."""
import concurrent.futures
import hashlib
import json
import os
import re
import subprocess
import sys
import time

VERIF = os.path.dirname(os.path.dirname(os.path.abspath(__file__)))
COQ = os.path.join(VERIF, 'coq')
THEORIES = os.path.join(COQ, 'theories')
WORK = os.path.join(VERIF, 'work')
CACHE = os.path.join(VERIF, '.cache')
HARNESS_BIN = os.path.join(CACHE, 'target', 'debug', 'vlsp-harness')
REPO = os.environ.get('VERIF_REPO', '/repo')
NPROC = 16

ENV = dict(os.environ)
ENV.update({'CARGO_NET_OFFLINE': 'true', 'CARGO_TARGET_DIR': os.path.join(CACHE, 'target')})

FORBIDDEN = re.compile(
    r'\b(Admitted|admit|Axiom|Axioms|Parameter|Parameters|Conjecture|Conjectures|Hypothesis|Hypotheses|Variable|Variables)\b'
    r'|Unset\s+Guard|Unset\s+Positivity|Unset\s+Universe|bypass_check|type-in-type|impredicative-set|Admit\s+Obligations|native_compute')

# axioms of the standard library that a theorem may depend on (none are expected;
# any that appears is reported by name in the evidence)
AXIOM_ALLOW = {
    'functional_extensionality_dep', 'FunctionalExtensionality.functional_extensionality_dep',
    'Eqdep.Eq_rect_eq.eq_rect_eq', 'Coq.Logic.Eqdep.Eq_rect_eq.eq_rect_eq', 'eq_rect_eq',
    'Classical_Prop.classic', 'classic', 'proof_irrelevance', 'JMeq_eq', 'JMeq.JMeq_eq',
}


def sh(cmd, timeout=None, cwd=None, env=None, input=None):
    t0 = time.time()
    try:
        p = subprocess.run(cmd, shell=isinstance(cmd, str), cwd=cwd, env=env or ENV, input=input,
                           stdout=subprocess.PIPE, stderr=subprocess.STDOUT, timeout=timeout, text=True)
        return p.returncode, p.stdout, time.time() - t0
    except subprocess.TimeoutExpired as e:
        out = e.stdout or ''
        if isinstance(out, bytes):
            out = out.decode('utf-8', 'replace')
        return 124, out + '\n[timeout]', time.time() - t0


# ----------------------------------------------------------------------------
# translator
def run_translator(sections):
    rc, out, _ = sh([sys.executable, os.path.join(VERIF, 'translator', 'gen.py')] + list(sections), timeout=120)
    try:
        status = json.load(open(os.path.join(THEORIES, 'Gen', 'status.json')))
    except Exception:
        status = {}
    failed = {s: status.get(s, {}).get('error', 'no status') for s in sections if not status.get(s, {}).get('ok')}
    return failed, out


# ----------------------------------------------------------------------------
# Coq
def coq_makefile():
    mk = os.path.join(COQ, 'Makefile')
    cp = os.path.join(COQ, '_CoqProject')
    if not os.path.exists(mk) or os.path.getmtime(mk) < os.path.getmtime(cp):
        sh('coq_makefile -f _CoqProject -o Makefile', cwd=COQ, timeout=60)


def coq_make(targets, timeout=1500):
    """Full .vo build of the given targets (relative to coq/). Returns (ok, log)."""
    coq_makefile()
    rc, out, _ = sh(['make', '-k', '-j%d' % NPROC] + list(targets), cwd=COQ, timeout=timeout)
    return rc == 0, out


def scan_forbidden():
    """Scan all .v sources for declarations / switches the brief forbids."""
    hits = []
    for root, _, files in os.walk(THEORIES):
        for f in files:
            if not f.endswith('.v'):
                continue
            path = os.path.join(root, f)
            text = open(path, encoding='utf-8').read()
            text_nc = strip_coq_comments(text)
            for i, line in enumerate(text_nc.split('\n'), 1):
                m = FORBIDDEN.search(line)
                if m:
                    # Variables/Hypotheses are allowed inside a Section only
                    if m.group(1) in ('Variable', 'Variables', 'Hypothesis', 'Hypotheses') and in_section(text_nc, i):
                        continue
                    hits.append(f'{os.path.relpath(path, VERIF)}:{i}: {line.strip()[:100]}')
    return hits


def strip_coq_comments(text):
    out = []
    depth = 0
    i = 0
    instr = False
    while i < len(text):
        if depth == 0 and text[i] == '"':
            instr = not instr
            out.append(text[i])
            i += 1
        elif not instr and text.startswith('(*', i):
            depth += 1
            i += 2
        elif not instr and depth > 0 and text.startswith('*)', i):
            depth -= 1
            i += 2
        else:
            if depth == 0:
                out.append(text[i])
            elif text[i] == '\n':
                out.append('\n')
            i += 1
    return ''.join(out)


def in_section(text, lineno):
    depth = 0
    for i, line in enumerate(text.split('\n'), 1):
        if i >= lineno:
            break
        if re.match(r'\s*Section\s+\w+', line):
            depth += 1
        elif re.match(r'\s*End\s+\w+', line) and depth > 0:
            depth -= 1
    return depth > 0


def coqc_file(path, timeout=600):
    rc, out, dt = sh(['coqc', '-noglob', '-Q', THEORIES, 'VL', path], cwd=os.path.dirname(path), timeout=timeout)
    return rc, out, dt


def load_pins(pid):
    return json.load(open(os.path.join(VERIF, 'checks', 'pins', pid + '.json')))


def audit(pid, prop_module, theorems, imports=None):
    """Compile a throw-away file that (a) checks every property theorem against
    its pinned statement and (b) prints its assumptions.  Returns
    (ok, axioms: {thm: [names]}, log)."""
    d = os.path.join(WORK, pid)
    os.makedirs(d, exist_ok=True)
    path = os.path.join(d, f'Audit_{pid}.v')
    lines = ['From Coq Require Import ZArith.', imports or '', f'From VL Require Import {prop_module}.', 'From VL Require Import Lib.Bytes.']
    for name, stmt in theorems.items():
        lines.append(f'Check ({name} : {stmt}).')
    for name in theorems:
        lines.append(f'Print Assumptions {name}.')
    open(path, 'w').write('\n'.join(lines) + '\n')
    rc, out, _ = coqc_file(path, timeout=300)
    axioms = {}
    if rc != 0:
        return False, axioms, out
    # Print Assumptions output comes in order
    blocks = re.split(r'(?=Closed under the global context|Axioms:)', out)
    blocks = [b for b in blocks if b.startswith('Closed') or b.startswith('Axioms:')]
    ok = len(blocks) == len(theorems)
    for name, b in zip(theorems, blocks):
        if b.startswith('Closed'):
            axioms[name] = []
        else:
            names = re.findall(r'^([A-Za-z_][\w\.\']*)\s*:', b[len('Axioms:'):], flags=re.M)
            axioms[name] = names
            for a in names:
                if a not in AXIOM_ALLOW and a.split('.')[-1] not in AXIOM_ALLOW:
                    ok = False
    return ok, axioms, out


def count_lemmas(files):
    """Number of Lemma/Theorem/Example/Corollary ... Qed. units in the given .v files."""
    n = 0
    for f in files:
        p = os.path.join(THEORIES, f)
        if os.path.exists(p):
            t = strip_coq_comments(open(p).read())
            n += len(re.findall(r'^\s*(?:Lemma|Theorem|Example|Corollary|Fact|Remark|Proposition)\s', t, flags=re.M))
    return n


# ----------------------------------------------------------------------------
# Gallina literals
def g_bytes(s):
    if isinstance(s, str):
        s = s.encode('utf-8')
    return '[' + ';'.join(str(b) for b in s) + ']'


def g_list(items):
    return '[' + '; '.join(items) + ']'


def g_opt(x, f=lambda v: str(v)):
    return 'None' if x is None else f'(Some {f(x)})'


def g_bool(b):
    return 'true' if b else 'false'


def g_Z(n):
    return f'({n})%Z'


def g_pair(*xs):
    return '(' + ', '.join(xs) + ')'


# ----------------------------------------------------------------------------
# evaluating Gallina functions on cases
MAX_SHARD_BYTES = 1_000_000


def coq_eval_verdicts(pid, tag, imports, case_type, case_terms, verdict_fn, shards=NPROC, timeout=900, preamble=''):
    """verdict_fn : case_type -> N  (0 = fine).  Returns ({index: verdict != 0}, errors)."""
    d = os.path.join(WORK, pid)
    os.makedirs(d, exist_ok=True)
    n = len(case_terms)
    if n == 0:
        return {}, []
    shards = max(1, min(shards, (n + 49) // 50))
    # bound the memory of one coqc (about 80 bytes of RSS per byte of case text): no file carries more than ~5 MB of
    # cases; the pool below runs at most NPROC files at a time
    total_bytes = sum(len(t) for t in case_terms)
    shards = max(shards, min(n, (total_bytes + MAX_SHARD_BYTES - 1) // MAX_SHARD_BYTES))
    jobs = []
    for k in range(shards):
        # round-robin: streams often put their heavy cases first, contiguous blocks would leave one shard with all of them
        members = list(range(k, n, shards))
        if not members:
            continue
        path = os.path.join(d, f'{tag}_{k}.v')
        with open(path, 'w') as f:
            f.write(imports + '\n')
            f.write('Open Scope N_scope. Open Scope list_scope.\n')
            f.write(preamble + '\n')
            f.write(f'Definition cases : list ({case_type}) := [\n')
            f.write(';\n'.join(case_terms[i] for i in members))
            f.write('\n].\n')
            f.write(f'Definition vfn : {case_type} -> N := {verdict_fn}.\n')
            f.write('Fixpoint nz (l : list (' + case_type + ')) (i : N) : list (N * N) := match l with [] => [] | c :: t => '
                    'let v := vfn c in if N.eqb v 0 then nz t (i + 1) else (i, v) :: nz t (i + 1) end.\n')
            f.write('Eval vm_compute in nz cases 0.\n')
        jobs.append((path, members))
    res = {}
    errors = []
    with concurrent.futures.ThreadPoolExecutor(max_workers=NPROC) as ex:
        futs = {ex.submit(coqc_file, p, timeout): (p, members) for p, members in jobs}
        for fut in concurrent.futures.as_completed(futs):
            p, members = futs[fut]
            rc, out, _ = fut.result()
            if rc != 0:
                errors.append(f'{os.path.basename(p)}: rc={rc}: {out[-800:]}')
                continue
            m = re.search(r'=\s*(.*?)\s*:\s*list \(N \* N\)', out, flags=re.S)
            if not m:
                errors.append(f'{os.path.basename(p)}: unparsable output: {out[-400:]}')
                continue
            for a, b in re.findall(r'\((\d+),\s*(\d+)\)', m.group(1)):
                res[members[int(a)]] = int(b)
    return res, errors


def coq_eval_show(pid, tag, imports, exprs, timeout=300, preamble=''):
    """Evaluate a few expressions and return Coq's printed results (for replays)."""
    d = os.path.join(WORK, pid)
    os.makedirs(d, exist_ok=True)
    path = os.path.join(d, f'{tag}_show.v')
    with open(path, 'w') as f:
        f.write(imports + '\nOpen Scope N_scope. Open Scope list_scope.\n' + preamble + '\n')
        for e in exprs:
            f.write(f'Eval vm_compute in ({e}).\n')
    rc, out, _ = coqc_file(path, timeout)
    parts = re.split(r'^\s*= ', out, flags=re.M)[1:]
    return [re.sub(r'\s+', ' ', p).strip() for p in parts] if rc == 0 else ['<coqc failed: ' + out[-300:] + '>']


# ----------------------------------------------------------------------------
# harness
_harness_built = False


def build_harness(timeout=1500):
    global _harness_built
    hdir = os.path.join(VERIF, 'harness')
    lock = os.path.join(hdir, 'Cargo.lock')
    # keep the harness lock file in step with the repository's
    rc, out, dt = sh(['cargo', 'build', '--offline'], cwd=hdir, timeout=timeout)
    _harness_built = rc == 0
    return rc == 0, out


def run_harness(stream, seed, n, opts=None, timeout=900, stdin=None):
    cmd = [HARNESS_BIN, stream, '--seed', str(seed), '--n', str(n)]
    for k, v in (opts or {}).items():
        cmd += ['--' + k, str(v)]
    t0 = time.time()
    try:
        p = subprocess.run(cmd, env=ENV, input=stdin, stdout=subprocess.PIPE, stderr=subprocess.PIPE, timeout=timeout, text=True)
    except subprocess.TimeoutExpired:
        return None, 'harness timeout'
    cases = []
    for line in p.stdout.split('\n'):
        line = line.strip()
        if line.startswith('{'):
            try:
                cases.append(json.loads(line))
            except Exception:
                pass
    if p.returncode != 0:
        return cases, f'harness exit {p.returncode}: {p.stderr[-500:]}'
    return cases, None


# ----------------------------------------------------------------------------
# reporting
def known_findings(pid):
    try:
        kf = json.load(open(os.path.join(VERIF, 'KNOWN_FINDINGS.json')))
    except Exception:
        return []
    return [e for e in kf.get('findings', []) if (e.get('property') == pid or pid in e.get('also_affects', [])) and e.get('status') == 'open']


class Report:
    def __init__(self, pid, tier, seed, level):
        self.pid, self.tier, self.seed, self.level = pid, tier, seed, level
        self.t0 = time.time()
        self.violations = []       # (what, replay dict, has_input)
        self.known_seen = {}       # finding id -> example
        self.broken = []           # broken obligations without a failing input yet
        self.cov = {'evaluations': 0, 'distinct_nontrivial': 0, 'samples': [], 'rule': '',
                    'obligations': 0, 'discharged': 0, 'checker_cmd': '', 'trusted_base': [],
                    'streams': {}, 'axioms': {}}
        self.assumptions = []
        self.notes = []

    def note(self, s):
        self.notes.append(s)
        print(f'[{self.pid}] {s}', flush=True)

    def violation(self, what, replay, has_input=True):
        self.violations.append((what, replay, has_input))

    def broke(self, what, detail):
        self.broken.append((what, detail))
        self.note(f'BROKEN: {what}: {str(detail)[:600]}')

    def known(self, fid, example):
        self.known_seen.setdefault(fid, example)

    def finish(self):
        os.makedirs(os.path.join(VERIF, 'replays'), exist_ok=True)
        lines = []
        rc = 0
        if os.environ.get('VERIF_DEBUG'):
            for what, replay, _ in self.violations[:400]:
                print('DBG-VIOLATION', what[:160], json.dumps(replay, default=str)[:600])
        # concrete failing inputs first
        concrete = [v for v in self.violations if v[2]]
        if concrete:
            for what, replay, _ in concrete[:3]:
                path = self._write_replay(what, replay)
                lines.append(f'VIOLATION property={self.pid} replay={path}')
            rc = 1
        elif self.broken or self.violations:
            what = '; '.join(w for w, _ in self.broken) or self.violations[0][0]
            replay = {'property': self.pid, 'kind': 'no-failing-input-found',
                      'broken': [{'what': w, 'detail': str(d)[:4000]} for w, d in self.broken],
                      'note': 'a proof obligation, pin, translator section or the model/implementation correspondence no longer '
                              'checks; the search over the generated streams found no input on which the property itself fails'}
            path = self._write_replay(what, replay)
            lines.append(f'VIOLATION property={self.pid} replay={path} no-failing-input-found')
            rc = 1
        for f in known_findings(self.pid):
            ex = self.known_seen.get(f['id'])
            seen = 're-observed' if ex is not None else 'covered by theorem ' + f.get('refuted_by', '?')
            print(f"KNOWN-FINDING: property={self.pid} {f['id']}: {f['what']} [{seen}]")
        self.cov['samples'] = self.cov['samples'][:8]
        ev = {'property_id': self.pid, 'tier': self.tier, 'seed': self.seed, 'level': self.level,
              'coverage': self.cov, 'assumptions': self.assumptions, 'wall_s': round(time.time() - self.t0, 2),
              'violations': len(concrete) if concrete else (1 if rc else 0), 'notes': self.notes[-40:],
              'known_findings_reobserved': sorted(self.known_seen)}
        os.makedirs(os.path.join(VERIF, 'evidence'), exist_ok=True)
        json.dump(ev, open(os.path.join(VERIF, 'evidence', f'{self.pid}.json'), 'w'), indent=1, default=str)
        for l in lines:
            print(l, flush=True)
        if rc == 0:
            print(f'[{self.pid}] OK tier={self.tier} wall={ev["wall_s"]}s evaluations={self.cov["evaluations"]}', flush=True)
        return rc

    def _write_replay(self, what, replay):
        replay = dict(replay)
        replay.setdefault('property', self.pid)
        replay['what'] = what
        replay['seed'] = self.seed
        h = hashlib.sha1(json.dumps(replay, sort_keys=True, default=str).encode()).hexdigest()[:10]
        path = os.path.join(VERIF, 'replays', f'{self.pid}-{h}.json')
        json.dump(replay, open(path, 'w'), indent=1, default=str)
        return path


BASE_TRUSTED = [
    'Coq 8.16.1 kernel (coqc full .vo build; vm_compute used inside finite-sweep proofs and case evaluation; no native_compute)',
    'translator/gen.py (pattern extraction of tables/constants/SQL text from /repo/src; fails loudly on shape change)',
    'harness/ (Rust driver of the real code, generators, canonicalisation) and checks/*.py (diff, classification)',
    'hand-written Gallina models in coq/theories/Model are transcriptions of the Rust control flow, tied to the code only by the correspondence streams and the regenerated data',
]


def standard_proof_phase(rep, sections, targets, prop_module, theorems, proof_files, oracle_targets=(), imports=None):
    """translator -> make -> forbidden scan -> audit.  Returns True when the proof
    side is intact.  Broken parts are recorded in rep.broken."""
    ok = True
    failed, out = run_translator(sections)
    for s, e in failed.items():
        rep.broke(f'translator section {s}', e)
        ok = False
    good, log = coq_make(list(oracle_targets), timeout=1500) if oracle_targets else (True, '')
    if not good:
        rep.broke('reference specification does not compile', log[-1500:])
    good, log = coq_make(list(targets), timeout=1500)
    if not good:
        m = re.search(r'File "([^"]+)", line (\d+).*?\nError:(.*?)(?:\n\n|\Z)', log, flags=re.S)
        where = f'{m.group(1)}:{m.group(2)}: {m.group(3).strip()[:300]}' if m else log[-600:]
        rep.broke('proof obligation no longer checks (make ' + ' '.join(targets) + ')', where)
        ok = False
    hits = scan_forbidden()
    if hits:
        rep.broke('forbidden declaration or switch in the development', hits[:5])
        ok = False
    n_obl = len(theorems) + count_lemmas(proof_files)
    rep.cov['obligations'] = n_obl
    if ok:
        aok, axioms, alog = audit(rep.pid, prop_module, theorems, imports)
        rep.cov['axioms'] = axioms
        if not aok:
            rep.broke('audit: pinned statement or assumption check failed', alog[-1200:])
            ok = False
    rep.cov['discharged'] = n_obl if ok else 0
    rep.cov['checker_cmd'] = f'make -C coq {" ".join(targets)} && coqc work/{rep.pid}/Audit_{rep.pid}.v (Check <thm> : <pinned statement>; Print Assumptions)'
    rep.cov['trusted_base'] = list(BASE_TRUSTED)
    return ok


def coqchk(rep, modules, timeout=1500):
    rc, out, dt = sh(['coqchk', '-silent', '-o', '-Q', THEORIES, 'VL'] + list(modules), cwd=COQ, timeout=timeout)
    m = re.search(r'Axioms:(.*)', out, flags=re.S)
    rep.cov['coqchk'] = {'rc': rc, 'wall_s': round(dt, 1), 'axioms': re.sub(r'\s+', ' ', m.group(1)).strip()[:500] if m else out[-300:]}
    if rc != 0:
        rep.broke('coqchk rejected the compiled development', out[-800:])
    return rc == 0
