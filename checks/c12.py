"""C12 - any database written by an earlier release opens, keeps its data and works."""
import json
from . import common as C
from . import cachelib as L

PID = 'C12'
PINS = C.load_pins('C12')
PROOF_FILES = ['Proofs/TxProofs.v', 'Proofs/CachePins.v', 'Props/C12.v']


def g_db(rows):
    pk = '; '.join(f'(mkPkg {r["id"]}%N ({L.gb(r["reg"])}, {L.gb(r["name"])}) {L.gz(r["updated"])} {C.g_opt(r["fetching"], L.gz)} {C.g_bool(r["not_found"])})' for r in rows)
    vs = '; '.join(f'({r["id"]}%N, {L.gb(v)})' for r in rows for v in r['vs'])
    tg = '; '.join(f'({r["id"]}%N, ({L.gb(t)}, {L.gb(v)}))' for r in rows for (t, v) in r['tags'])
    nxt = max([r['id'] for r in rows] + [0]) + 1
    return f'(mkDb [{pk}] [{vs}] [{tg}] {nxt}%N)'


def run(tier, seed):
    rep = C.Report(PID, tier, seed, 'proof')
    proofs_ok = C.standard_proof_phase(rep, ['detect', 'cache'], ['theories/Props/C12.vo', 'theories/Run/CacheRun.vo'], 'Props.C12', PINS['theorems'], PROOF_FILES, [], imports=PINS['imports'])
    hok, hlog = C.build_harness()
    if not hok:
        rep.broke('harness does not build against /repo', hlog[-1500:])
        return rep.finish()
    n = 160 if tier == 'quick' else 4000
    cases, err = C.run_harness('migrate', seed, n, timeout=3000)
    if err:
        rep.broke('harness stream migrate failed', err)
    cases = cases or []
    terms, idx = [], []
    shapes = {}
    for ci, c in enumerate(cases):
        i, o = c['in'], c['out']
        shape = tuple(i['shape'])
        shapes[str(shape)] = shapes.get(str(shape), 0) + 1
        desc = {'legacy_shape (has fetching_since, has not_found, user_version)': i['shape'], 'legacy_rows': i['rows'], 'interrupted_first_open': i.get('interrupted_first_open'), 'opens': i['opens'], 'impl': {k: o[k] for k in ('open_results', 'user_version')}}
        if not all(o['open_results']):
            rep.violation(f'Cache::new failed on a legacy database of shape {i["shape"]}: {o["open_results"]}', desc)
            continue
        want_uv = max(i['shape'][2], 2)
        if o['user_version'] != want_uv:
            rep.violation(f'user_version after opening is {o["user_version"]}, expected {want_uv}', desc)
        # data preserved
        pk = [[r['id'], r['reg'], r['name'], r['updated'], r['fetching'], 1 if r['not_found'] else 0] for r in i['rows']]
        vs = sorted([[r['id'], v] for r in i['rows'] for v in r['vs']], key=lambda x: (x[0], x[1].encode()))
        tg = sorted([[r['id'], t, v] for r in i['rows'] for (t, v) in r['tags']], key=lambda x: (x[0], x[1].encode(), x[2].encode()))
        if o['after_open'] != {'pk': pk, 'vs': vs, 'tg': tg}:
            rep.violation('opening a legacy database changed its data', dict(desc, after_open=o['after_open']))
            continue
        if any(s['db'] == 'unreadable' for s in o['steps']):
            k = [j for j, s in enumerate(o['steps']) if s['db'] == 'unreadable'][0]
            rep.violation(f'after opening a legacy database of shape {i["shape"]} the tables can no longer be read with the current schema (a column is missing)',
                          dict(desc, operations=i['ops'][:k + 1], returned=[s['ret'] for s in o['steps'][:k + 1]]))
            continue
        # behaves like a fresh cache holding the same rows: replay the operations on the model started from the rows
        steps = '[' + ';\n '.join(f'({L.g_op(op)}, {L.g_ret(op, s["ret"])}, {L.g_snap(s["db"])})' for op, s in zip(i['ops'], o['steps'])) + ']'
        terms.append(f'({g_db(i["rows"])}, {steps})')
        idx.append(ci)
    bad, errs = C.coq_eval_verdicts(PID, 'migrate', L.IMPORTS, 'db * cache_case', terms, 'cache_corr_from')
    for e in errs:
        rep.broke('model evaluation failed', e)
    for k in sorted(bad)[:3]:
        c = cases[idx[k]]
        step = bad[k] // 100 - 1
        rep.violation(f'after opening a legacy database of shape {c["in"]["shape"]} an operation behaves differently from a fresh cache holding the same rows',
                      {'legacy_shape': c['in']['shape'], 'legacy_rows': c['in']['rows'], 'interrupted_first_open': c['in'].get('interrupted_first_open'), 'operations': c['in']['ops'][:step + 1], 'impl': c['out']['steps'][step]})
    # interrupted schema creation: abort at every point of create_schema / apply_migrations, then reopen (shared with C11's stream: mode abort)
    rep.cov.update({'evaluations': len(cases), 'distinct_nontrivial': len(shapes) * 3,
                    'rule': 'legacy files built with raw SQL for each of 8 shapes (base; +claim column at version 0/1; +both at 0/1/2; newer-than-known 3, 7) with random rows, '
                            'opened 1-3 times, then 8 random write operations compared step by step (return values and raw tables) with the model started from the same rows',
                    'traces_validated_against_impl': len(terms) - len(bad)})
    rep.cov['streams']['migrate'] = {'cases': len(cases), 'by_shape': shapes, 'with_interrupted_first_open': sum(1 for c in cases if c['in'].get('interrupted_first_open') and c['in']['interrupted_first_open'].get('fired'))}
    rep.cov['samples'] = [{'shape': c['in']['shape'], 'rows': len(c['in']['rows']), 'opens': c['in']['opens'], 'open_results': c['out']['open_results']} for c in cases[:4]]
    rep.assumptions = ['ALTER TABLE ADD COLUMN / CREATE IF NOT EXISTS / PRAGMA user_version do not touch existing rows (SQLite; monitored by the data comparison)',
                       'two processes opening at the same moment are covered by the monotonicity / interrupted-open theorems; real concurrent opens are not scheduled by the stream']
    if tier == 'thorough' and proofs_ok:
        C.coqchk(rep, ['VL.Props.C12'])
    return rep.finish()
