"""C08 - the cache returns exactly what was stored, per package, across any history."""
import json
from . import common as C
from . import cachelib as L

PID = 'C08'
PINS = C.load_pins('C08')
PROOF_FILES = ['Proofs/CacheProofs.v', 'Proofs/CachePins.v', 'Props/C08.v']


def oracle(case):
    """Property oracle on the implementation's own answers (python rendering of Spec/AbsCache.v):
    replay the history on the abstract map and compare every read."""
    T = 30000
    st = {}
    bad = []
    ops, steps = case['in']['ops'], case['out']['steps']
    for i, (o, s) in enumerate(zip(ops, steps)):
        k = o['op']
        key = (o.get('reg'), o.get('name'))
        ret = s['ret']
        if k == 'store':
            e = st.setdefault(key, {'vs': [], 'tags': {}, 'nf': False, 'upd': o['now'], 'claim': None})
            for v in o['vs']:
                if v not in e['vs']:
                    e['vs'].append(v)
            e['upd'] = o['now']
        elif k == 'tags':
            if o['m']:
                e = st.setdefault(key, {'vs': [], 'tags': {}, 'nf': False, 'upd': o['now'], 'claim': None})
                e['tags'] = dict(o['m'])
        elif k == 'mark':
            if key in st:
                st[key]['nf'] = True
        elif k == 'claim':
            e = st.get(key)
            want = e is None or e['claim'] is None or e['claim'] < o['now'] - T
            if e is None:
                st[key] = {'vs': [], 'tags': {}, 'nf': False, 'upd': o['now'], 'claim': o['now']}
            elif want:
                e['claim'] = o['now']
            if ret is not want:
                bad.append((i, f'claim returned {ret}, abstract cache says {want}'))
        elif k == 'release':
            if key in st:
                st[key]['claim'] = None
        elif k == 'versions':
            want = sorted(st.get(key, {'vs': []})['vs'], key=lambda x: x.encode())
            if ret != want:
                bad.append((i, f'get_versions returned {ret}, stored union is {want}'))
        elif k == 'exists':
            want = o['v'] in st.get(key, {'vs': []})['vs']
            if ret is not want:
                bad.append((i, f'version_exists returned {ret}, expected {want}'))
        elif k == 'dist_tag':
            want = st.get(key, {'tags': {}})['tags'].get(o['tag'])
            if ret != {'ok': want}:
                bad.append((i, f'get_dist_tag returned {ret!r}, most recent non-empty tag map has {want!r}'))
        elif k == 'filter':
            def missing(n):
                e = st.get((o['reg'], n))
                return e is None or (not e['vs'] and not e['nf'])
            want = [n for n in o['names'] if missing(n)]
            if ret != want:
                bad.append((i, f'filter_packages_not_in_cache returned {ret}, missing are {want}'))
        elif k == 'refresh':
            want = sorted([list(kk) for kk, e in st.items() if e['upd'] < o['now'] - o['interval'] and not e['nf']], key=lambda x: (x[0].encode(), x[1].encode()))
            if ret != want:
                bad.append((i, f'get_packages_needing_refresh returned {ret}, stale and existing are {want}'))
        if ret is None or ret in ('panic', 'err'):
            bad.append((i, f'operation {k} failed or panicked on a healthy cache'))
    return bad


def run(tier, seed):
    rep = C.Report(PID, tier, seed, 'proof')
    proofs_ok = C.standard_proof_phase(rep, ['detect', 'cache'], ['theories/Props/C08.vo', 'theories/Run/CacheRun.vo'], 'Props.C08', PINS['theorems'], PROOF_FILES, [], imports=PINS['imports'])
    hok, hlog = C.build_harness()
    if not hok:
        rep.broke('harness does not build against /repo', hlog[-1500:])
        return rep.finish()
    n, steps = (150, 40) if tier == 'quick' else (2000, 100)
    cases, err = C.run_harness('cache-seq', seed, n, {'steps': steps}, timeout=3000)
    if err:
        rep.broke('harness stream cache-seq failed', err)
    cases = cases or []
    bad = L.run_corr(rep, PID, cases)
    for i, step in sorted(bad.items())[:3]:
        rep.broke('correspondence cache model vs real Cache', {'history_prefix': cases[i]['in']['ops'][:step + 1], 'impl': cases[i]['out']['steps'][step]})
    nviol = 0
    for c in cases:
        for (i, msg) in oracle(c)[:1]:
            nviol += 1
            rep.violation(f'cache read disagrees with the abstract map: {msg}', {'history': c['in']['ops'][:i + 1], 'step': i, 'impl': c['out']['steps'][i]['ret']})
    # several handles: what a second handle reads while a writer is between two of its statements
    peeks, err = C.run_harness('cache-fault', seed + 5, 25 if tier == 'quick' else 600, {'abort': '0'}, timeout=3000)
    npeek = 0
    for c in peeks or []:
        i, o = c['in'], c['out']
        if i['mode'] == 'peek' and o['fired']:
            npeek += 1
            if o['got'] not in (o['before'], o['after']):
                rep.violation(f'a second handle reading while {i["op"]["op"]} is at statement point {i["point"]} sees neither the state before nor after the operation',
                              {'history': i['prefix'], 'operation': i['op'], 'point': i['point'], 'before': o['before'], 'after': o['after'], 'seen_by_second_handle': o['got']})
    rep.cov['streams']['second_handle_reads'] = {'reads_inside_a_write': npeek}
    nsteps = sum(len(c['in']['ops']) for c in cases)
    rep.cov.update({'evaluations': nsteps, 'distinct_nontrivial': len(cases), 'programs': len(cases), 'disagreements_checked': nsteps,
                    'rule': 'random histories over store/tags/mark/claim/release/reopen/reads on 2-4 colliding keys incl. hostile names, 1-3 handles; every step compared'})
    rep.cov['samples'] = [cases[0]['in']['ops'][:6]] if cases else []
    rep.cov['traces_validated_against_impl'] = len(cases) - len(bad)
    rep.assumptions = ['SQLite / rusqlite semantics of the statement forms used (DESIGN 3.5); the AUTOINCREMENT counter advances on conflicting inserts (observed, modelled)',
                       'operations are replayed sequentially on 1-3 handles of one file; true thread/process interleavings are covered by C09 (claims) and C11 (transactions)',
                       'get_versions row order is unspecified: lists are compared sorted, latest up to spelling of the same version']
    if tier == 'thorough' and proofs_ok:
        C.coqchk(rep, ['VL.Props.C08'])
    return rep.finish()
