"""Abstract syntax of npm / Cargo ranges: enumeration, random generation,
printing (the canonical layout of Spec/RangeView.v) and Gallina rendering."""
import itertools
import random

OPS = ['', '=', '>', '>=', '<', '<=', '~', '^']
OPN = ['OpNone', 'OpEq', 'OpGt', 'OpGe', 'OpLt', 'OpLe', 'OpTilde', 'OpCaret']
FL = {'bare': 'XBare', 'x': 'Xx', 'X': 'XX', '*': 'XStar'}
FLS = {'bare': None, 'x': 'x', 'X': 'X', '*': '*'}


# partial: ('any', fl) | ('p1', M, fl) | ('p2', M, m, fl) | ('p3', M, m, p, pre, build)
def print_partial(p):
    k = p[0]
    if k == 'any':
        return '' if p[1] == 'bare' else FLS[p[1]]
    if k == 'p1':
        return str(p[1]) + ('' if p[2] == 'bare' else '.' + FLS[p[2]])
    if k == 'p2':
        return f'{p[1]}.{p[2]}' + ('' if p[3] == 'bare' else '.' + FLS[p[3]])
    s = f'{p[1]}.{p[2]}.{p[3]}'
    if p[4]:
        s += '-' + p[4]
    if p[5]:
        s += '+' + p[5]
    return s


def g_bytes(s):
    return '[' + ';'.join(str(b) for b in s.encode('utf-8')) + ']'


def g_partial(p):
    k = p[0]
    if k == 'any':
        return f'(PAny {FL[p[1]]})'
    if k == 'p1':
        return f'(P1 {p[1]} {FL[p[2]]})'
    if k == 'p2':
        return f'(P2 {p[1]} {p[2]} {FL[p[3]]})'
    return f'(P3 {p[1]} {p[2]} {p[3]} {g_bytes(p[4])} {g_bytes(p[5])})'


# comp: (op index, space, v, partial)
def print_comp(c):
    op, sp, v, p = c
    return OPS[op] + (' ' if sp else '') + ('v' if v else '') + print_partial(p)


def g_comp(c):
    op, sp, v, p = c
    return f'(mkComp {OPN[op]} {"true" if sp else "false"} {"true" if v else "false"} {g_partial(p)})'


# nalt: ('hyphen', a, b) | ('and', [comp])
def print_nalt(a):
    if a[0] == 'hyphen':
        return print_partial(a[1]) + ' - ' + print_partial(a[2])
    return ' '.join(print_comp(c) for c in a[1])


def g_nalt(a):
    if a[0] == 'hyphen':
        return f'(NHyphen {g_partial(a[1])} {g_partial(a[2])})'
    return '(NAnd [' + '; '.join(g_comp(c) for c in a[1]) + '])'


def print_nrange(r):
    return ' || '.join(print_nalt(a) for a in r)


def g_nrange(r):
    return '[' + '; '.join(g_nalt(a) for a in r) + ']'


def print_creq(r):
    return ', '.join(print_comp(c) for c in r)


def g_creq(r):
    return '[' + '; '.join(g_comp(c) for c in r) + ']'


# version: (M, m, p, pre, build)
def print_version(v):
    s = f'{v[0]}.{v[1]}.{v[2]}'
    if v[3]:
        s += '-' + v[3]
    if v[4]:
        s += '+' + v[4]
    return s


def g_version(v):
    return f'(mkV {v[0]} {v[1]} {v[2]} {g_bytes(v[3])} {g_bytes(v[4])})'


# ---------------------------------------------------------------------------
LATTICE = [0, 1, 2, 10]
PRES = ['', 'alpha', '0', 'rc.1']


def lattice_partials(flavors=('bare',)):
    out = []
    for M in LATTICE:
        for fl in flavors:
            out.append(('p1', M, fl))
    for M in LATTICE:
        for m in LATTICE:
            for fl in flavors:
                out.append(('p2', M, m, fl))
    for M in LATTICE:
        for m in LATTICE:
            for p in LATTICE:
                out.append(('p3', M, m, p, '', ''))
    return out


def lattice_versions(with_pre=True):
    vals = [0, 1, 2, 3, 10, 11]
    out = []
    for M in vals:
        for m in vals:
            for p in vals:
                out.append((M, m, p, '', ''))
    if with_pre:
        for M in [0, 1, 2, 3, 11]:
            for m in [0, 1, 2, 3]:
                for p in [0, 1, 3]:
                    for pre in ['alpha', '0', 'rc.1']:
                        out.append((M, m, p, pre, ''))
    return out


def lattice_npm_single():
    """every operator x every lattice operand, as one-comparator ranges"""
    out = []
    for op in range(8):
        for p in lattice_partials():
            out.append([('and', [(op, False, False, p)])])
    # x-range spellings without operator
    for p in lattice_partials(('x', 'X')):
        if p[0] != 'p3':
            out.append([('and', [(0, False, False, p)])])
    out.append([('and', [(0, False, False, ('any', '*'))])])
    return out


def lattice_crates_single():
    out = []
    for op in range(8):
        for p in lattice_partials():
            out.append([(op, False, False, p)])
    for p in lattice_partials(('*',)):
        if p[0] != 'p3':
            out.append([(0, False, False, p)])
    out.append([(0, False, False, ('any', '*'))])
    return out


def rnd_num(r):
    k = r.random()
    if k < 0.6:
        return r.choice([0, 0, 1, 1, 2, 3, 5, 9, 10, 11, 17])
    if k < 0.9:
        return r.randrange(0, 1000)
    return r.choice([2 ** 32, 2 ** 53, 2 ** 64 - 1, 2 ** 63])


def rnd_pre(r):
    if r.random() < 0.6:
        return ''
    return r.choice(['alpha', 'beta.1', '0', 'rc.1', '1', 'alpha.0', 'a-b', '0a', 'x.7.z.92', 'beta.11', 'beta.2'])


def rnd_build(r, p=0.05):
    return r.choice(['b1', '001', 'exp.sha.5114f85', 'build-7', 'wasi-snapshot-preview1']) if r.random() < p else ''


def rnd_partial(r, flavors, full_bias=0.55):
    k = r.random()
    if k < full_bias:
        return ('p3', rnd_num(r), rnd_num(r), rnd_num(r), rnd_pre(r), rnd_build(r))
    fl = r.choice(flavors)
    if k < full_bias + 0.2:
        return ('p2', rnd_num(r), rnd_num(r), fl)
    if k < full_bias + 0.4:
        return ('p1', rnd_num(r), fl)
    return ('any', r.choice([f for f in flavors if f != 'bare'] or ['*']))


def rnd_comp(r, flavors):
    op = r.randrange(8)
    p = rnd_partial(r, flavors)
    sp = op != 0 and r.random() < 0.08
    v = r.random() < 0.06
    if p[0] == 'any' and op != 0:
        op = r.choice([0, 3])
    return (op, sp, v, p)


def rnd_nrange(r):
    flavors = ['bare', 'bare', 'bare', 'x', 'X', '*']
    alts = []
    for _ in range(r.choice([1, 1, 1, 2, 2, 3])):
        if r.random() < 0.15:
            a = rnd_partial(r, ['bare'], 0.6)
            b = rnd_partial(r, ['bare'], 0.6)
            if a[0] == 'any' or b[0] == 'any':
                a = ('p3', rnd_num(r), rnd_num(r), rnd_num(r), '', '')
                b = ('p1', rnd_num(r), 'bare')
            alts.append(('hyphen', a, b))
        else:
            alts.append(('and', [rnd_comp(r, flavors) for _ in range(r.choice([1, 1, 1, 2, 2, 3]))]))
    return alts


def rnd_creq(r):
    flavors = ['bare', 'bare', 'bare', '*', 'x', 'X']
    cs = [rnd_comp(r, flavors) for _ in range(r.choice([1, 1, 1, 2, 2, 3]))]
    # a bare `*` is only legal as the whole requirement
    if len(cs) > 1:
        cs = [c for c in cs if c[3][0] != 'any'] or [cs[0]]
    return cs


def operand_tuples(rng_ast):
    """(M, m, p, pre) of every operand of a range / requirement (missing components as 0)"""
    out = []

    def walk(p):
        if p[0] == 'p1':
            out.append((p[1], 0, 0, ''))
        elif p[0] == 'p2':
            out.append((p[1], p[2], 0, ''))
        elif p[0] == 'p3':
            out.append((p[1], p[2], p[3], p[4]))
    for a in rng_ast:
        if isinstance(a, tuple) and a and a[0] == 'hyphen':
            walk(a[1]); walk(a[2])
        elif isinstance(a, tuple) and a and a[0] == 'and':
            for c in a[1]:
                walk(c[3])
        else:
            walk(a[3])
    return out


def versions_near(r, rng_ast, n):
    """versions on and next to every bound the range can have: the operand tuple and its
    six axis neighbours, each as a release and with prereleases; then random fill"""
    out = []
    seen = set()

    def add(v):
        if v not in seen and all(0 <= x < 2 ** 64 for x in v[:3]):
            seen.add(v)
            out.append(v)
    tuples = operand_tuples(rng_ast)
    r.shuffle(tuples)
    for (M, m, p, pre) in tuples[:3]:
        for (a, b, c) in [(0, 0, 0), (1, 0, 0), (-1, 0, 0), (0, 1, 0), (0, -1, 0), (0, 0, 1), (0, 0, -1), (1, -m, -p), (0, 1, -p)]:
            t = (M + a, m + b, p + c)
            if min(t) < 0:
                continue
            add(t + ('', ''))
            add(t + (r.choice(['alpha', '0', 'rc.1', 'beta.2']), ''))
        if pre:
            add((M, m, p, pre, ''))
            add((M, m, p, pre + '.1', ''))
            add((M, m, p, 'a', ''))
    nums = sorted({x for t in tuples for x in t[:3]} | {0, 1})
    pool = sorted({max(0, x + d) for x in nums for d in (-1, 0, 1)})
    pool = [x for x in pool if x < 2 ** 64]
    for _ in range(n):
        add((r.choice(pool), r.choice(pool), r.choice(pool), rnd_pre(r) if r.random() < 0.35 else '', rnd_build(r, 0.03)))
    return out
