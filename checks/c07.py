"""C07 - applying an offered version bump rewrites only that version, to a real newer one (and C17's stream)."""
import collections
import json
import random
import re
from . import common as C
from . import parselib as P
from . import manifests as M

PID = 'C07'
PINS = C.load_pins('C07')
PROOF_FILES = ['Proofs/BumpProofs.v', 'Proofs/CstProofs.v', 'Proofs/GoOrderProofs.v', 'Proofs/ParseShow.v', 'Proofs/OfferedText.v', 'Props/C07.v']
IMPORTS = 'From Coq Require Import ZArith.\nFrom VL Require Import Lib.Bytes Lib.Cst Model.CodeAction Run.ParseRun Run.ActionRun.\n'
CLASS_FINDING = {
    'token': 'C07-edit-range-assumes-token-is-version',
    'utf16': 'C05-byte-columns-sent-as-utf16',
    'respell': 'C07-advertised-version-respelled',
    'pep-eq': 'C07-pep440-operator-rewritten',
    'gha-quoted-uses': 'C05-quoted-uses-range-shifted',
}
TOKEN_CLASSES = {'alias-token', 'json-escape', 'toml-literal-string', 'pep508-spaced-spec', 'pep508-no-spec', 'pep508-marker-operator', 'jsr-subpath'}
SINGLE = re.compile(r'^(>=|<=|>|<|=|\^|~)?v?(\d+)(\.(\d+))?(\.(\d+))?(-([0-9A-Za-z.-]+))?(\+[0-9A-Za-z.-]+)?$')


# ---- a small reference for semantic versions (the generated pools are plain X.Y.Z[-pre]) ----
def sv_parse(s):
    m = SINGLE.match(s)
    if not m:
        return None
    for g in (2, 4, 6):
        if m.group(g) and len(m.group(g)) > 1 and m.group(g)[0] == '0':
            return None
    pre = m.group(8)
    if pre is not None:
        for seg in pre.split('.'):
            if seg == '' or (seg.isdigit() and len(seg) > 1 and seg[0] == '0'):
                return None
    return (int(m.group(2)), int(m.group(4) or 0), int(m.group(6) or 0), pre or '', (m.group(9) or '')[1:])


def pre_key(p):
    if p == '':
        return (1,)
    out = []
    for seg in p.split('.'):
        out.append((0, int(seg), '') if seg.isdigit() else (1, 0, seg))
    return (0, tuple(out))


def sv_key(v):
    return (v[0], v[1], v[2], pre_key(v[3]), v[4])


def sv_show(v):
    return f'{v[0]}.{v[1]}.{v[2]}' + ('-' + v[3] if v[3] else '') + ('+' + v[4] if v[4] else '')


def ref_targets(current, versions):
    cur = sv_parse(current)
    if cur is None:
        return None
    parsed = [p for p in (sv_parse(v) for v in versions) if p is not None]
    out = []
    for keep in (lambda m: m[0] == cur[0] and m[1] == cur[1], lambda m: m[0] == cur[0], lambda m: True):
        cand = [m for m in parsed if keep(m)]
        if cand:
            best = max(cand, key=sv_key)
            if sv_key(best) > sv_key(cur) and sv_show(best) not in out:
                out.append(sv_show(best))
    return out


def prefix_of(v):
    for p in ('>=', '<=', '>', '<', '=', '^', '~', 'v'):
        if v.startswith(p):
            return p
    return ''


def cache_for(rnd, doc):
    cache = {}
    for d in doc.declared:
        name = d['name']
        if name in cache:
            continue
        base = sv_parse(d['spec'] or '') or sv_parse(d.get('comment', '') or '') or (1, 2, 3, '', '')
        k = rnd.random()
        if k < 0.12:
            cache[name] = []
            continue
        vs = set()
        pool = [(base[0], base[1], base[2]), (base[0], base[1], base[2] + rnd.randrange(1, 9)), (base[0], base[1] + rnd.randrange(1, 4), 0),
                (base[0] + 1, 0, 0), (base[0] + rnd.randrange(2, 5), rnd.randrange(3), rnd.randrange(3)), (max(0, base[0] - 1), 9, 9), (base[0], base[1], max(0, base[2] - 1))]
        for t in rnd.sample(pool, rnd.randrange(1, len(pool) + 1)):
            vs.add('%d.%d.%d' % t)
        if rnd.random() < 0.3:
            vs.add('%d.%d.%d-beta.%d' % (base[0] + 1, 0, 0, rnd.randrange(1, 4)))
        if rnd.random() < 0.15:
            vs.add(rnd.choice(['not-a-version', 'latest', '1.0', '']))
        vs = sorted(vs)
        if doc.fmt in ('github_actions', 'go_mod'):
            vs = ['v' + v if v and v[0].isdigit() else v for v in vs]
            if doc.fmt == 'github_actions' and rnd.random() < 0.3:
                vs.append('v%d' % (base[0] + 1))
        cache[name] = vs
    return cache


def u16(s):
    return len(s.encode('utf-16-le')) // 2


def cursors_for(rnd, doc):
    tb = doc.text.encode('utf-8')
    lines = doc.text.split('\n')
    out = []
    for d in doc.declared:
        ls = tb.rfind(b'\n', 0, d['start']) + 1
        pre16 = u16(tb[ls:d['start']].decode('utf-8'))
        n16 = u16(tb[d['start']:d['end']].decode('utf-8'))
        for off in {0, n16 // 2, max(0, n16 - 1), n16, -1}:
            c = pre16 + off
            if c >= 0:
                out.append((d['line'], c))
        tok = d['token']
        out.append((d['line'], u16(tb[ls:tok[0]].decode('utf-8'))))
    for _ in range(3):
        ln = rnd.randrange(len(lines))
        out.append((ln, rnd.randrange(len(lines[ln]) + 2)))
    out.append((0, 0))
    seen, uniq = set(), []
    for c in out:
        if c not in seen:
            seen.add(c)
            uniq.append(c)
    return uniq


def apply_edit(text, a):
    """what an LSP client does: positions are (line, UTF-16 code unit)"""
    lines = text.split('\n')
    if a['line'] >= len(lines) or a['end_line'] != a['line']:
        return None

    def to_idx(line, col16):
        n = 0
        for i, ch in enumerate(line):
            if n >= col16:
                return i
            n += 2 if ord(ch) > 0xFFFF else 1
        return len(line)
    ln = lines[a['line']]
    s, e = to_idx(ln, a['start']), to_idx(ln, a['end'])
    lines[a['line']] = ln[:s] + a['text'] + ln[e:]
    return '\n'.join(lines)


def g_action(a):
    return f'(mkAction {C.g_bytes(a["title"])} {a["line"]} {a["start"]} {a["end"]} {C.g_bytes(a["text"])})'


def case_terms(doc, cache, sha, out):
    """Gallina cases, one per cursor"""
    pk = C.g_list([P.g_pkg(p) for p in out['pkgs']])
    vs = C.g_list([C.g_pair(C.g_bytes(n), C.g_list([C.g_bytes(v) for v in l])) for n, l in cache.items()])
    lat = C.g_list([C.g_pair(C.g_bytes(n), C.g_opt(v, C.g_bytes)) for n, v in out['latest'].items()])
    sh = C.g_list([C.g_pair(C.g_bytes(t), C.g_opt(s, C.g_bytes)) for t, s in (sha or {}).items()])
    terms = []
    for c in out['cursors']:
        if c['actions'] == 'panic':
            impl = 'APanic'
        else:
            impl = f'(AActs {C.g_opt(c["hit"])} {C.g_list([g_action(a) for a in c["actions"]])})'
        terms.append(f'(mkAC {pk} {vs} {lat} {sh} {c["pos"][0]} {c["pos"][1]} {C.g_bool(doc.fmt == "github_actions")} {impl})')
    return terms


def entry_at(doc, line, col16):
    """the declared entry whose spec text holds the cursor (UTF-16 columns), and whether the cursor is inside its token"""
    tb = doc.text.encode('utf-8')
    for d in doc.declared:
        if d['line'] != line:
            continue
        ls = tb.rfind(b'\n', 0, d['start']) + 1
        s16 = u16(tb[ls:d['start']].decode('utf-8'))
        e16 = s16 + u16(tb[d['start']:d['end']].decode('utf-8'))
        if s16 <= col16 < e16:
            return d, True
    for d in doc.declared:
        if d['line'] != line:
            continue
        ls = tb.rfind(b'\n', 0, d['token'][0]) + 1
        s16 = u16(tb[ls:d['token'][0]].decode('utf-8'))
        e16 = s16 + u16(tb[d['token'][0]:d['token'][1]].decode('utf-8')) + 2
        if s16 - 1 <= col16 < e16:
            return d, False
    return None, False


def classes_of(doc, d):
    cls = set(d['classes']) | set(doc.classes)
    tb = doc.text.encode('utf-8')
    ls = tb.rfind(b'\n', 0, d['start']) + 1
    if any(b > 127 for b in tb[ls:d['start']]):
        cls.add('utf16')
    if doc.meta.get('escaped_keys') or doc.meta.get('escaped_section_keys'):
        cls.add('json-escape')
    return cls


def run_stream(rep, tier, seed, only_gha=False, sha_faults=False):
    """shared by C07 and C17; returns (docs, caches, shas, outs)"""
    rnd = random.Random(seed * 104729 + (17 if only_gha else 7))
    per = (40 if tier == 'quick' else 800)
    gens = {'github_actions': M.GENERATORS['github_actions']} if only_gha else M.GENERATORS
    if only_gha:
        per *= 4
    docs, caches, shas, lines = [], [], [], []
    for fmt, g in gens.items():
        for _ in range(per):
            d = g(rnd)
            cache = cache_for(rnd, d)
            sha = None
            if fmt == 'github_actions':
                tags = set()
                for vs in cache.values():
                    for v in vs:
                        tags.add(v)
                        p = sv_parse(v)
                        if p:
                            tags.add('v' + sv_show(p))
                sha = {}
                for t in tags:
                    k = rnd.random()
                    if k < (0.35 if sha_faults else 0.1):
                        continue                     # unknown tag
                    sha[t] = None if k < (0.5 if sha_faults else 0.15) else '%040x' % rnd.getrandbits(160)
            docs.append(d)
            caches.append(cache)
            shas.append(sha)
            tags = {}
            if fmt == 'github_actions' and rnd.random() < 0.3 and cache:
                n = rnd.choice(list(cache))
                if cache[n]:
                    tags[n] = {'latest': rnd.choice(cache[n])}
            lines.append(json.dumps({'fmt': d.fmt, 'text': d.text, 'cache': cache, 'tags': tags, 'sha': sha or {}, 'cursors': cursors_for(rnd, d)}))
    outs, err = C.run_harness('action', 0, 0, stdin='\n'.join(lines) + '\n', timeout=3000)
    if err:
        rep.broke('harness stream action failed', err)
    return docs, caches, shas, outs or []


def hash_oracle(rep, docs, caches, shas, outs, stats, finding_of):
    """C17: hash-pinned steps.  For every cursor on the hit range of a hash-pinned step: the offered edits are exactly the
    ones whose tag lookup succeeds, each replaces hash..comment end by '<commit of the tag> # <tag>' (hash only: the hash
    by the commit of the latest release), and re-parsing the edited document gives that (tag, commit) pair."""
    edits = []
    for i, (d, cache, sha, o) in enumerate(zip(docs, caches, shas, outs)):
        out = o['out']
        if out['pkgs'] == 'panic' or d.fmt != 'github_actions':
            continue
        tb = d.text.encode('utf-8')
        for c in out['cursors']:
            if c['actions'] == 'panic':
                continue
            line, col = c['pos']
            ent, on_spec = entry_at(d, line, col)
            if ent is None or ent['hash'] is None:
                continue
            cls = classes_of(d, ent)
            pk = [p for p in out['pkgs'] if p['hash'] == ent['hash'] and p['line'] == ent['line']]
            if not pk:
                continue
            p = pk[0]
            ls = tb.rfind(b'\n', 0, ent['start']) + 1
            h16 = u16(tb[ls:ent['start']].decode('utf-8'))
            vlen = len(p['version'])
            hit_expected = h16 <= col < h16 + vlen         # the cursor test uses the length of the version string at the hash column
            acts = c['actions']
            stats['hash_cursors'] += 1
            known = cls & {'utf16', 'gha-quoted-uses'}
            if not hit_expected:
                if acts and not known:
                    rep.violation(f'hash-pinned step {ent["name"]!r}: actions offered with the cursor outside the hit range', {'document': d.text, 'cursor': c['pos'], 'actions': acts})
                continue
            vs = cache.get(ent['name'], [])
            sha = sha or {}
            if ent['spec'] is None:      # hash only
                latest = out['latest'].get(ent['name'])
                exp = []
                if vs and latest is not None and sha.get(latest):
                    exp = [(f'Bump to latest: {latest}', sha[latest], latest, None)]
            else:
                want = ref_targets(ent['spec'], vs)
                exp = []
                if want is not None and vs:
                    pre = prefix_of(ent['spec'])
                    for t, label in zip(want, [l for l, x in zip(('patch', 'minor', 'major'), range(3))]):
                        pass
                    # labels: recompute per line
                    cur = sv_parse(ent['spec'])
                    parsed = [q for q in (sv_parse(v) for v in vs) if q is not None]
                    seen = []
                    for label, keep in (('patch', lambda m: m[0] == cur[0] and m[1] == cur[1]), ('minor', lambda m: m[0] == cur[0]), ('major', lambda m: True)):
                        cand = [m for m in parsed if keep(m)]
                        if not cand:
                            continue
                        best = max(cand, key=sv_key)
                        if sv_key(best) > sv_key(cur) and sv_show(best) not in seen:
                            seen.append(sv_show(best))
                            tag = pre + sv_show(best)
                            if sha.get(tag):
                                exp.append((f'Bump to latest {label}: {tag}', sha[tag], tag, label))
            got = [(a['title'], a['text']) for a in acts]
            want_pairs = [(t, (s + ' # ' + tag) if ent['spec'] is not None else s) for t, s, tag, _ in exp]
            if got != want_pairs:
                if known:
                    rep.known(finding_of['utf16' if 'utf16' in known else 'gha-quoted-uses'], {'step': d.text.split('\n')[ent['line']][:200]})
                else:
                    rep.violation(f'hash-pinned step {ent["name"]!r} ({"comment " + ent["spec"] if ent["spec"] else "no comment"}): offered {got}, the cached releases {vs} and the tag source {sha} call for {want_pairs}',
                                  {'document': d.text, 'cursor': c['pos'], 'cache': vs, 'sha': sha, 'actions': acts, 'expected': want_pairs})
                continue
            stats['hash_offers_checked'] += 1
            for a, (t, s, tag, _) in zip(acts, exp):
                edits.append((i, ent, a, apply_edit(d.text, a), s, tag, bool(known)))
    re_docs = [(docs[i].fmt, t) for i, ent, a, t, s, tag, k in edits if t is not None]
    re_outs, err = P.run_docs(re_docs) if re_docs else ([], None)
    if err:
        rep.broke('harness stream parse (edited workflows) failed', err)
    j = 0
    for i, ent, a, t, s, tag, known in edits:
        d = docs[i]
        if t is None:
            rep.violation('hash-pinned step: an edit cannot be applied', {'document': d.text, 'action': a})
            continue
        ro = re_outs[j]['out']['pkgs'] if j < len(re_outs) else None
        j += 1
        tb = d.text.encode('utf-8')
        end = ent.get('comment_end', ent['end']) if ent['spec'] is not None else ent['end']
        new = (s + ' # ' + tag) if ent['spec'] is not None else s
        want_text = (tb[:ent['start']] + new.encode() + tb[end:]).decode('utf-8')
        stats['hash_edits_applied'] += 1
        ok = t == want_text
        if ok and isinstance(ro, list) and ent['spec'] is not None:
            ok = any(p['hash'] == s and p['version'] == tag and p['name'] == ent['name'] for p in ro)
        if ok:
            stats['hash_edits_exact'] += 1
        elif known:
            rep.known(finding_of['utf16' if 'utf16' in classes_of(d, ent) else 'gha-quoted-uses'], {'line_before': d.text.split('\n')[ent['line']][:200], 'line_after': t.split('\n')[ent['line']][:200]})
        else:
            rep.violation(f'hash-pinned step {ent["name"]!r}: applying {a["title"]!r} does not leave exactly the commit of {tag!r} and the comment "# {tag}"',
                          {'document': d.text, 'action': a, 'line_before': d.text.split('\n')[ent['line']], 'line_after': t.split('\n')[ent['line']], 'expected_line': want_text.split('\n')[ent['line']]})


def run(tier, seed):
    rep = C.Report(PID, tier, seed, 'proof')
    proofs_ok = C.standard_proof_phase(rep, ['parsers'], ['theories/Props/C07.vo', 'theories/Run/ActionRun.vo'], 'Props.C07', PINS['theorems'], PROOF_FILES, [], imports=PINS['imports'])
    hok, hlog = C.build_harness()
    if not hok:
        rep.broke('harness does not build against /repo', hlog[-1500:])
        return rep.finish()
    docs, caches, shas, outs = run_stream(rep, tier, seed)
    # ---- property oracle ----
    edits = []       # (doc index, declared entry, action, edited text)
    stats = collections.Counter()
    for i, (d, cache, o) in enumerate(zip(docs, caches, outs)):
        out = o['out']
        if out['pkgs'] == 'panic':
            continue
        for c in out['cursors']:
            if c['actions'] == 'panic':
                rep.violation(f'{d.fmt}: code-action generation panics', {'document': d.text, 'cursor': c['pos'], 'cache': cache})
                continue
            line, col = c['pos']
            ent, on_spec = entry_at(d, line, col)
            acts = c['actions']
            stats['cursors'] += 1
            if ent is None:
                if acts:
                    rep.violation(f'{d.fmt}: an action is offered although the cursor ({line},{col}) is on no dependency', {'document': d.text, 'cursor': c['pos'], 'actions': acts})
                continue
            cls = classes_of(d, ent)
            hashy = ent['hash'] is not None
            if hashy:
                continue                                  # C17's stream
            tok = ent['token']
            reported = [p for p in out['pkgs'] if p['start'] <= tok[1] + 1 and p['end'] >= tok[0] - 1 and p['name'] == ent['name']]
            if not reported:
                continue                                  # the dependency is not (or not under this name) reported by the parser: C04's business
            spec = ent['spec']
            known_cls = (cls & TOKEN_CLASSES) or (cls & {'utf16', 'gha-quoted-uses'}) or d.fmt == 'pyproject_toml'
            vs = cache.get(ent['name'], [])
            want = ref_targets(spec, vs) if SINGLE.match(spec or '') else None
            if not on_spec:
                if acts and not known_cls:
                    rep.violation(f'{d.fmt}: an action is offered with the cursor next to, not on, the spec of {ent["name"]!r}', {'document': d.text, 'cursor': c['pos'], 'actions': acts, 'spec_span': (ent['start'], ent['end'])})
                elif acts:
                    rep.known(CLASS_FINDING['token'], {'format': d.fmt, 'cursor': c['pos'], 'dependency': ent['name'], 'classes': sorted(cls)})
                continue
            stats['on_spec'] += 1
            if known_cls:
                for a in acts:
                    edits.append((i, ent, a, apply_edit(d.text, a), True))
                continue
            if want is None:
                # multi-clause or tag specs: nothing is demanded; offered edits are still applied and checked below
                for a in acts:
                    edits.append((i, ent, a, apply_edit(d.text, a), False))
                continue
            got = [a['text'] for a in acts]
            pre = prefix_of(spec)
            exp = [pre + t for t in want]
            respell = d.fmt in ('github_actions', 'go_mod') and any((pre + t) not in vs and ('v' + t) not in vs for t in want)
            if got != exp:
                rep.violation(f'{d.fmt}: offered bumps {got} for {ent["name"]!r} {spec!r}, the cached versions {vs} call for {exp}',
                              {'document': d.text, 'cursor': c['pos'], 'cache': vs, 'actions': acts, 'expected': exp})
                continue
            stats['targets_checked'] += 1
            for a, t in zip(acts, want):
                if a['title'] != f'Bump to latest {"patch minor major".split()[0]}: ' + a['text'] and not re.match(r'^Bump to latest (patch|minor|major): ', a['title']):
                    rep.violation(f'{d.fmt}: unexpected action title {a["title"]!r}', {'actions': acts})
                if sv_show(sv_parse(t)) != t or (t not in vs and ('v' + t) not in vs and pre + t not in vs):
                    rep.known(CLASS_FINDING['respell'], {'format': d.fmt, 'current': spec, 'cache': vs, 'advertised': a['text']})
                edits.append((i, ent, a, apply_edit(d.text, a), False))
    # ---- apply every offered edit and re-parse ----
    re_docs = [(docs[i].fmt, t) for i, ent, a, t, k in edits if t is not None]
    re_outs, err = P.run_docs(re_docs) if re_docs else ([], None)
    if err:
        rep.broke('harness stream parse (edited documents) failed', err)
    j = 0
    for i, ent, a, t, known in edits:
        d = docs[i]
        if t is None:
            rep.violation(f'{d.fmt}: an edit cannot be applied (range outside the document / several lines)', {'document': d.text, 'action': a})
            continue
        ro = re_outs[j]['out']['pkgs'] if j < len(re_outs) else None
        j += 1
        tb = d.text.encode('utf-8')
        want_text = (tb[:ent['start']] + a['text'].encode('utf-8') + tb[ent['end']:]).decode('utf-8')
        stats['edits_applied'] += 1
        ok = (t == want_text)
        if ok and isinstance(ro, list):
            before = [(p['name'], p['version']) for p in outs[i]['out']['pkgs']]
            after = [(p['name'], p['version']) for p in ro]
            changed = [k for k in range(min(len(before), len(after))) if before[k] != after[k]]
            ok = len(before) == len(after) and len(changed) <= 1
        if ok:
            stats['edits_exact'] += 1
            continue
        cls = classes_of(d, ent)
        why = None
        if cls & TOKEN_CLASSES or d.fmt == 'pyproject_toml':
            why = 'pep-eq' if d.fmt == 'pyproject_toml' and (ent.get('raw_spec') or '').lstrip().startswith(('==', '~=', '!=')) else 'token'
        for c2 in ('utf16', 'gha-quoted-uses'):
            if c2 in cls:
                why = c2
        if why:
            rep.known(CLASS_FINDING[why], {'format': d.fmt, 'line_before': d.text.split('\n')[ent['line']][:200], 'line_after': t.split('\n')[ent['line']][:200] if ent['line'] < len(t.split('\n')) else '', 'action': a})
        else:
            rep.violation(f'{d.fmt}: applying {a["title"]!r} does not rewrite exactly the spec of {ent["name"]!r}',
                          {'document': d.text, 'action': a, 'line_before': d.text.split('\n')[ent['line']], 'line_after': t.split('\n')[ent['line']] if ent['line'] < len(t.split('\n')) else None})
    hash_oracle(rep, docs, caches, shas, outs, stats, CLASS_FINDING)
    # ---- correspondence ----
    if proofs_ok and outs:
        terms, owner = [], []
        for i, (d, cache, sha, o) in enumerate(zip(docs, caches, shas, outs)):
            if o['out']['pkgs'] == 'panic':
                continue
            ts = case_terms(d, cache, sha, o['out'])
            terms += ts
            owner += [(i, k) for k in range(len(ts))]
        bad, errs = C.coq_eval_verdicts(PID, 'corr', IMPORTS, 'action_case', terms, 'action_corr', timeout=1500)
        for e in errs:
            rep.broke('action model evaluation failed', e)
        if bad:
            k = sorted(bad)[0]
            i, c = owner[k]
            rep.broke('correspondence Model.CodeAction vs code_action.rs', {'first_disagreement': {'format': docs[i].fmt, 'document': docs[i].text, 'cache': caches[i], 'sha': shas[i], 'cursor': outs[i]['out']['cursors'][c]}, 'count': len(bad)})
        rep.cov['traces_validated_against_impl'] = len(terms) - len(bad)
    rep.cov.update({'evaluations': stats['cursors'], 'distinct_nontrivial': stats['on_spec'],
                    'rule': 'generated manifests of the 7 formats x cached version sets built around each spec (older/same/newer patch, minor, major, prereleases, junk, empty) x cursors at the first, middle, last '
                            'character of every spec, one past it, one before it, the token start, random positions and (0,0); every offered edit is applied the way an LSP client does (UTF-16 columns) and the '
                            'edited document is re-parsed with the real parser; non-trivial = cursors on a spec'})
    rep.cov['streams']['actions'] = dict(stats)
    rep.cov['samples'] = [{'format': docs[0].fmt, 'document': docs[0].text[:300], 'cache': caches[0]}] if docs else []
    rep.assumptions = ['versions in the generated caches are plain X.Y.Z[-pre] strings (plus junk), so the Python reference for targets is a small semver comparison; the Coq theorems cover every string',
                       'u32 overflow of positions needs documents beyond 4 GiB and is outside the model']
    if tier == 'thorough' and proofs_ok:
        C.coqchk(rep, ['VL.Props.C07'])
    return rep.finish()
