"""Histories of the cache-seq harness stream as Gallina terms for Run/CacheRun.v."""
from . import common as C

IMPORTS = 'From VL Require Import Lib.Bytes Model.CacheDb Run.CacheRun.\nOpen Scope Z_scope.'


def gb(s):
    return C.g_bytes(s)


def gz(n):
    return f'({n})%Z'


def gkey(o):
    return f'({gb(o["reg"])}, {gb(o["name"])})'


def g_op(o):
    k = o['op']
    if k == 'store':
        return f'(CStore {gkey(o)} [{"; ".join(gb(v) for v in o["vs"])}] {gz(o["now"])})'
    if k == 'tags':
        return f'(CTags {gkey(o)} [{"; ".join("(" + gb(a) + ", " + gb(b) + ")" for a, b in o["m"])}] {gz(o["now"])})'
    if k == 'mark':
        return f'(CMark {gkey(o)})'
    if k == 'claim':
        return f'(CClaim {gkey(o)} {gz(o["now"])})'
    if k == 'release':
        return f'(CRelease {gkey(o)})'
    if k == 'reopen':
        return 'CReopen'
    if k == 'latest':
        return f'(CLatest {gkey(o)} {C.g_bool(o["ignore_pre"])})'
    if k == 'versions':
        return f'(CVersions {gkey(o)})'
    if k == 'filter':
        return f'(CFilter {gb(o["reg"])} [{"; ".join(gb(n) for n in o["names"])}])'
    if k == 'refresh':
        return f'(CRefresh {gz(o["interval"])} {gz(o["now"])})'
    if k == 'dist_tag':
        return f'(CDistTag {gkey(o)} {gb(o["tag"])})'
    if k == 'exists':
        return f'(CExists {gkey(o)} {gb(o["v"])})'
    raise ValueError(k)


def g_ret(o, ret):
    k = o['op']
    if ret is None or ret in ('panic', 'err'):
        return 'RUnit'   # an error / panic never equals a model answer
    if k in ('store', 'tags', 'mark', 'release', 'reopen', 'claim', 'exists'):
        return f'(RBool {C.g_bool(bool(ret))})'
    if k in ('latest', 'dist_tag'):
        return f'(ROpt {C.g_opt(ret["ok"], gb)})'
    if k in ('versions', 'filter'):
        return f'(RList [{"; ".join(gb(x) for x in ret)}])'
    if k == 'refresh':
        return f'(RKeys [{"; ".join("(" + gb(a) + ", " + gb(b) + ")" for a, b in ret)}])'
    raise ValueError(k)


def g_snap(db):
    pk = '; '.join(f'({r[0]}%N, {gb(r[1])}, {gb(r[2])}, {gz(r[3])}, {C.g_opt(r[4], gz)}, {C.g_bool(bool(r[5]))})' for r in db['pk'])
    vs = '; '.join(f'({r[0]}%N, {gb(r[1])})' for r in db['vs'])
    tg = '; '.join(f'({r[0]}%N, {gb(r[1])}, {gb(r[2])})' for r in db['tg'])
    return f'([{pk}], [{vs}], [{tg}])'


def case_term(case):
    ops = case['in']['ops']
    steps = case['out']['steps']
    return '[' + ';\n '.join(f'({g_op(o)}, {g_ret(o, s["ret"])}, {g_snap(s["db"])})' for o, s in zip(ops, steps)) + ']'


def run_corr(rep, pid, cases, tag='cache'):
    """model vs implementation on whole histories; returns {case index: failing step}"""
    terms = [case_term(c) for c in cases]
    bad, errs = C.coq_eval_verdicts(pid, tag + '_corr', IMPORTS, 'cache_case', terms, 'cache_corr', shards=16)
    for e in errs:
        rep.broke('cache model evaluation failed', e)
    out = {}
    for i, v in bad.items():
        out[i] = v // 100 - 1
    return out
