"""C11 - a crash or error during a cache write never leaves a half-written package."""
import json
from . import common as C

PID = 'C11'
PINS = C.load_pins('C11')
PROOF_FILES = ['Proofs/TxProofs.v', 'Proofs/CachePins.v', 'Props/C11.v']


def run(tier, seed):
    rep = C.Report(PID, tier, seed, 'proof')
    proofs_ok = C.standard_proof_phase(rep, ['cache'], ['theories/Props/C11.vo'], 'Props.C11', PINS['theorems'], PROOF_FILES, [], imports=PINS['imports'])
    hok, hlog = C.build_harness()
    if not hok:
        rep.broke('harness does not build against /repo', hlog[-1500:])
        return rep.finish()
    n = 40 if tier == 'quick' else 1200
    cases, err = C.run_harness('cache-fault', seed, n, timeout=3000)
    if err:
        rep.broke('harness stream cache-fault failed', err)
    cases = cases or []
    stats = {'error': 0, 'abort': 0, 'peek': 0, 'fired': 0, 'before': 0, 'after': 0}
    points = set()
    ncorr = 0
    for c in cases:
        i, o = c['in'], c['out']
        stats[i['mode']] += 1
        points.add((i['mode'], tuple(i['point']), i['op']['op']))
        if o['fired']:
            stats['fired'] += 1
        desc = {'mode': i['mode'], 'history': i['prefix'], 'interrupted_operation': i['op'], 'point': i['point'],
                'before': o['before'], 'after': o['after'], 'found': o['got'], 'returned': o['ret']}
        if i['mode'] == 'peek':
            # what a second handle sees while the writer is between two statements: before or after, never a mixture
            if o['fired'] and o['got'] not in (o['before'], o['after']):
                rep.violation(f'a second handle reading while {i["op"]["op"]} is at {i["point"]} sees a half-written package', desc)
            if o['final'] != o['after']:
                rep.broke('peek run: final state differs from the reference run', desc)
            continue
        if not o['reopened']:
            rep.violation(f'database cannot be opened after a {i["mode"]} at {i["point"]}', desc)
            continue
        # the property itself: all or nothing
        if o['got'] == o['before']:
            stats['before'] += 1
        elif o['got'] == o['after']:
            stats['after'] += 1
        else:
            rep.violation(f'half-written package after a {i["mode"]} at {i["point"]} during {i["op"]["op"]}: the tables are neither the state before nor after the operation', desc)
            continue
        # correspondence with the model: every point lies before the commit (or between the two statements of a
        # claim whose first statement changed nothing), so an interruption that fired leaves the state before
        want = o['before'] if o['fired'] else o['after']
        if o['got'] != want:
            nbroke = stats.setdefault('model_disagreements', 0)
            stats['model_disagreements'] = nbroke + 1
            if nbroke < 2:
                rep.broke('correspondence Model.CacheTx vs real cache under interruption', desc)
        else:
            ncorr += 1
        if i['mode'] == 'error' and o['fired'] and o['ret'] not in (False, None):
            rep.violation('an injected database error was swallowed: the operation reported success', desc)
    rep.cov.update({'evaluations': len(cases), 'distinct_nontrivial': len(points),
                    'rule': 'every numbered statement point of replace_versions (incl. first and second loop iteration), save_dist_tags and try_start_fetch, '
                            'after a random history: (1) injected database error in-process, (2) abort() of a child process; then a fresh handle reads the file. '
                            'distinct = (mode, point, operation)',
                    'traces_validated_against_impl': ncorr})
    rep.cov['streams']['cache-fault'] = stats
    rep.cov['samples'] = [{'mode': c['in']['mode'], 'op': c['in']['op'], 'point': c['in']['point'], 'fired': c['out']['fired'],
                           'state': 'before' if c['out']['got'] == c['out']['before'] else 'after'} for c in cases[:6]]
    rep.assumptions = ['SQLite atomicity and durability (WAL, synchronous=NORMAL) under process kill: assumed in the theorems, exercised by abort() in a child process',
                       'power loss / OS crash (as opposed to process death) is outside what the stream can exhibit',
                       'the call sequence with its transaction brackets is extracted by the translator from the source text of each write method']
    if tier == 'thorough' and proofs_ok:
        C.coqchk(rep, ['VL.Props.C11'])
    return rep.finish()
