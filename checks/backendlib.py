"""Scripts for the in-process LspService (harness stream `backend`) and their rendering as
events of Model/Backend.v."""
import json
from . import common as C

IMPORTS = 'From VL Require Import Lib.Bytes Model.Backend Run.BackendRun.'
URIS = ['file:///w1/package.json', 'file:///w2/package.json', 'file:///w3/sub/package.json', 'file:///w/notes.txt', 'file:///w/mypackage.json']
SUPPORTED = [0, 1, 2]
PKGS = ['lodash', 'left-pad', 'chalk', 'ghost']
REPLY = {'versions': 'RVersions', 'not_found': 'RNotFound', 'invalid': 'RError'}


def text_of(rev):
    """revision -> manifest text: [rev] = (blank lines before, package index or None)"""
    pad, pk = rev
    if isinstance(pk, (list, tuple)):
        deps = ',\n'.join(f'    "{PKGS[k]}": "1.0.0"' for k in pk) + ('\n' if pk else '')
    else:
        deps = f'    "{PKGS[pk]}": "1.0.0"\n' if pk is not None else ''
    return '{\n' + '\n' * pad + '  "dependencies": {\n' + deps + '  }\n}'


def rev_id(rev):
    pad, pk = rev
    return pad * 10 + (pk + 1 if pk is not None else 0)


def g_event(st, registry):
    op = st['op']
    if op == 'open':
        return f'(EvOpen {st["u"]} {rev_id(st["rev"])})'
    if op == 'change':
        return f'(EvChange {st["u"]} {rev_id(st["rev"])})'
    if op == 'close':
        return f'(EvClose {st["u"]})'
    if op == 'reply':
        return f'(EvReply {st["p"]} {REPLY[registry[PKGS[st["p"]]]["kind"]]})'
    if op == 'action':
        return f'(EvAction {st["u"]})'
    raise ValueError(op)


def to_script(case):
    """case: {'registry': {name: outcome}, 'cached': [pkg idx], 'steps': [...], 'no_store': bool, 'config': ..., 'gated': bool}"""
    steps = []
    nchange = 0
    for st in case['steps']:
        op = st['op']
        if op in ('open', 'change'):
            step = {'op': op, 'uri': URIS[st['u']], 'text': text_of(st['rev'])}
            if op == 'change':
                nchange += 1
                if nchange % 3 == 1:
                    # one notification carrying two full-text changes: the first (another layout of the same manifest) is
                    # superseded by the second, which is the document
                    step['pre_texts'] = [text_of((st['rev'][0] + 2, st['rev'][1]))]
            steps.append(step)
        elif op == 'close':
            steps.append({'op': 'close', 'uri': URIS[st['u']]})
        elif op == 'reply':
            steps.append({'op': 'reply', 'name': PKGS[st['p']]})
        elif op == 'action':
            # the spec of the single dependency sits on line pad + 2, inside the quoted value
            steps.append({'op': 'action', 'uri': URIS[st['u']], 'line': st['line'], 'character': 4 + len(PKGS[st.get('pk', 0)]) + 5})
        elif op == 'config_answer':
            steps.append({'op': 'config_answer'})
    return {'registry': case['registry'], 'prefill': [{'name': PKGS[p], 'vs': ['1.0.0', '2.0.0'], 'reg': 'npm'} for p in case['cached']],
            'no_store': case.get('no_store', False), 'config': case.get('config', 'none'), 'gated': case.get('gated', True), 'steps': steps}


def case_term(case, out, enabled=None):
    revs = {}
    for st in case['steps']:
        if st['op'] in ('open', 'change'):
            revs[rev_id(st['rev'])] = st['rev'][1]
    tbl = '[' + '; '.join(f'({r}, {C.g_opt(p, str)})' for r, p in sorted(revs.items())) + ']'
    obs = []
    for st, so in zip(case['steps'], out['steps']):
        if st['op'] == 'config_answer':
            continue
        pubs = [URIS.index(t['uri']) for t in so['traffic'] if t['kind'] == 'publish']
        warns = sum(1 for t in so['traffic'] if t['kind'] == 'show' and 'Cache not available' in str(t['message']))
        acts = 0
        if st['op'] == 'action':
            r = so['result']
            acts = 1 if isinstance(r, dict) and r.get('ok') not in (None, []) else 2
        pend = sorted(PKGS.index(n) for n in so['pending'])
        obs.append(f'({g_event(st, case["registry"])}, [{"; ".join(map(str, pubs))}], {warns}, {acts}, [{"; ".join(map(str, pend))}])')
    en = SUPPORTED if enabled is None else enabled
    return C.g_pair('[' + '; '.join(map(str, SUPPORTED)) + ']', '[' + '; '.join(map(str, en)) + ']', C.g_bool(not case.get('no_store', False)),
                    tbl, '[' + '; '.join(map(str, case['cached'])) + ']', '[' + ';\n '.join(obs) + ']')


def run_scripts(cases, timeout=3000):
    scripts = [to_script(c) for c in cases]
    outs, err = C.run_harness('backend', 0, 0, stdin='\n'.join(json.dumps(s) for s in scripts) + '\n', timeout=timeout)
    return outs or [], err
