"""C13 - last published diagnostics match the document's latest text and the cache."""
import itertools
import json
import random
from . import common as C
from . import backendlib as B

PID = 'C13'
PINS = C.load_pins('C13')
PROOF_FILES = ['Proofs/BackendProofs.v', 'Proofs/MultiDocProofs.v', 'Props/C13.v']
OUTCOMES = [{'kind': 'versions', 'vs': ['1.0.0', '2.0.0']}, {'kind': 'not_found'}, {'kind': 'invalid'}]


def gen_cases(rnd, tier):
    cases = []
    # exhaustive: one document, up to 3 edits, each reply before or after each later edit
    for nedits in (1, 2, 3):
        for pkgs in itertools.product([0, 1, None], repeat=nedits):
            if pkgs[0] is None:
                continue
            for outcome in OUTCOMES:
                base = [{'op': 'open' if i == 0 else 'change', 'u': 0, 'rev': (i, pk)} for i, pk in enumerate(pkgs)]
                replies = [{'op': 'reply', 'p': p} for p in sorted({p for p in pkgs if p is not None})]
                # every position of every reply after the edit that first mentions its package
                slots = []
                for r in replies:
                    first = next(i for i, pk in enumerate(pkgs) if pk == r['p'])
                    slots.append(range(first + 1, nedits + 1))
                for pos in itertools.product(*slots):
                    steps = []
                    for i in range(nedits + 1):
                        if i > 0:
                            steps.append(base[i - 1])
                        steps += [r for r, p in zip(replies, pos) if p == i]
                    cases.append({'registry': {B.PKGS[k]: outcome for k in range(4)}, 'cached': [], 'steps': steps, 'shared': False})
    # exhaustive: one document opened, (edited,) closed and opened again, each reply at every position after the event that
    # first needs it - before the close, between close and re-open, after the re-open
    for with_change in (False, True):
        for a, b, c in itertools.product([0, 1], repeat=3):
            if not with_change and b != a:
                continue
            for outcome in OUTCOMES[:2]:
                evs = [{'op': 'open', 'u': 0, 'rev': (0, a)}] + ([{'op': 'change', 'u': 0, 'rev': (1, b)}] if with_change else []) + [{'op': 'close', 'u': 0}, {'op': 'open', 'u': 0, 'rev': (2, c)}]
                mention = {}
                for i, e in enumerate(evs):
                    if e['op'] != 'close' and e['rev'][1] not in mention:
                        mention[e['rev'][1]] = i
                replies = [{'op': 'reply', 'p': p_} for p_ in sorted(mention)]
                slots = [range(mention[r['p']] + 1, len(evs) + 1) for r in replies]
                for pos in itertools.product(*slots):
                    steps = []
                    for i in range(len(evs) + 1):
                        if i > 0:
                            steps.append(evs[i - 1])
                        steps += [r for r, p_ in zip(replies, pos) if p_ == i]
                    cases.append({'registry': {B.PKGS[k]: outcome for k in range(4)}, 'cached': [], 'steps': steps, 'shared': False})
    n = 120 if tier == 'quick' else 3000
    for _ in range(n):
        shared = rnd.random() < 0.15
        registry = {B.PKGS[k]: rnd.choice(OUTCOMES) for k in range(4)}
        cached = [k for k in range(4) if rnd.random() < 0.2]
        ndocs = rnd.choice([1, 2, 2, 3])
        # documents use disjoint packages unless the script is a "shared" one
        own = {u: ([0, 1, 2, 3] if shared else [k for k in range(4) if k % ndocs == u]) for u in range(ndocs)}
        steps, opened, pend, pad = [], set(), set(), 0
        for _ in range(rnd.randrange(3, 12)):
            k = rnd.random()
            u = rnd.randrange(ndocs)
            if k < 0.45:
                pad += 1
                pk = rnd.choice(own[u] + [None])
                steps.append({'op': 'change' if u in opened else 'open', 'u': u, 'rev': (pad, pk)})
                opened.add(u)
                if pk is not None:
                    pend.add(pk)
            elif k < 0.8 and pend:
                p = rnd.choice(sorted(pend))
                steps.append({'op': 'reply', 'p': p})
            elif k < 0.9 and u in opened:
                steps.append({'op': 'close', 'u': u})
                opened.discard(u)
            else:
                steps.append({'op': 'open', 'u': rnd.choice([3, 4]), 'rev': (0, 0)})
        for p in sorted(pend):
            steps.append({'op': 'reply', 'p': p})
        cases.append({'registry': registry, 'cached': cached, 'steps': steps, 'shared': shared})
    # manifests with several dependencies (oracle only: a task then waits for several replies)
    for _ in range(60 if tier == 'quick' else 1500):
        registry = {B.PKGS[k]: rnd.choice(OUTCOMES) for k in range(4)}
        cached = [k for k in range(4) if rnd.random() < 0.15]
        steps, pend, pad = [], [], 0
        for j in range(rnd.randrange(1, 4)):
            pad += 1
            pks = rnd.sample(range(4), rnd.choice([2, 3, 4]))
            steps.append({'op': 'open' if j == 0 else 'change', 'u': 0, 'rev': (pad, pks)})
            pend += [p for p in pks if p not in pend]
            rnd.shuffle(pend)
            for p in pend[:rnd.randrange(0, len(pend) + 1)]:
                steps.append({'op': 'reply', 'p': p})
        for p in pend + pend:
            steps.append({'op': 'reply', 'p': p})
        cases.append({'registry': registry, 'cached': cached, 'steps': steps, 'shared': False, 'multi': True})
    return cases


def run(tier, seed):
    rep = C.Report(PID, tier, seed, 'proof')
    proofs_ok = C.standard_proof_phase(rep, [], ['theories/Props/C13.vo', 'theories/Run/BackendRun.vo'], 'Props.C13', PINS['theorems'], PROOF_FILES, [], imports=PINS['imports'])
    hok, hlog = C.build_harness()
    if not hok:
        rep.broke('harness does not build against /repo', hlog[-1500:])
        return rep.finish()
    rnd = random.Random(seed)
    cases = gen_cases(rnd, tier)
    outs, err = B.run_scripts(cases)
    if err:
        rep.broke('harness backend', err)
    terms, term_idx, term_idx_all = [], [], []
    nviol = 0
    npubs = 0
    for case, o in zip(cases, outs):
        out = o['out']
        if not case.get('multi'):
            terms.append(B.case_term(case, out))
            term_idx.append(len(term_idx_all))
        term_idx_all.append(1)
        last = {}
        for i, (st, so) in enumerate(zip(case['steps'], out['steps'])):
            for t in so['traffic']:
                if t['kind'] == 'publish':
                    last[t['uri']] = t['diags']
                    npubs += 1
            # after every settled step: the diagnostics a client shows for each open document are the ones
            # computed from its current text and the current cache
            cur = {}
            for st2 in case['steps'][:i + 1]:
                if st2['op'] in ('open', 'change'):
                    cur[B.URIS[st2['u']]] = st2['rev']
                elif st2['op'] == 'close':
                    cur.pop(B.URIS[st2['u']], None)
            for uri, exp in so['expected_now'].items():
                if so['pending']:
                    # fetches still in flight: the cache may already hold more than the last publication used, but
                    # the publication must have been computed from the current revision (its dependency lines)
                    pad, pk = cur[uri]
                    ndeps = len(pk) if isinstance(pk, (list, tuple)) else (0 if pk is None else 1)
                    ok = all(pad + 2 <= d[0] < pad + 2 + ndeps for d in last.get(uri) or []) and uri in last
                    what = f'the diagnostics last published for {uri} were computed from an earlier revision of the document'
                else:
                    ok = last.get(uri) == exp
                    what = f'all fetches have finished, but the diagnostics last published for {uri} are not those of its latest text and the final cache'
                if not ok:
                    desc = {'script': B.to_script(case)['steps'][:i + 1], 'registry': case['registry'], 'uri': uri,
                            'last_published': last.get(uri), 'diagnostics_of_current_text_and_cache': exp, 'pending_fetches': so['pending']}
                    if case['shared']:
                        rep.known('C13-cross-document-no-republish', desc)
                    else:
                        nviol += 1
                        if nviol <= 3:
                            rep.violation(what, desc)
                    break
    bad, errs = C.coq_eval_verdicts(PID, 'backend', B.IMPORTS, 'backend_case', terms, 'backend_corr')
    for e in errs:
        rep.broke('backend model evaluation failed', e)
    for k in sorted(bad)[:3]:
        step = bad[k] // 100 - 1
        kk = term_idx[k]
        rep.broke('correspondence Model.Backend vs the in-process LspService', {'script': B.to_script(cases[kk])['steps'][:step + 1], 'impl_step': outs[kk]['out']['steps'][step]})
    rep.cov.update({'evaluations': sum(len(c['steps']) for c in cases), 'distinct_nontrivial': len({json.dumps(c['steps']) for c in cases if any(s['op'] == 'reply' for s in c['steps'])}),
                    'rule': 'exhaustive: one document, 1-3 edits over {pkg0, pkg1, no dependency}, every position of every registry reply after the edit that first needs it, for the outcomes '
                            'versions / not found / garbage; random: 1-3 documents, closes, unsupported uris, pre-cached packages; after every settled step the last publication of each '
                            'open document is compared with generate_diagnostics(current text, current cache); distinct = scripts with at least one reply',
                    'traces_validated_against_impl': len(terms) - len(bad)})
    rep.cov['streams']['backend'] = {'scripts': len(cases), 'publications': npubs, 'shared_package_scripts': sum(1 for c in cases if c['shared'])}
    rep.cov['samples'] = [B.to_script(cases[7])['steps'], B.to_script(cases[-1])['steps'][:5]]
    rep.assumptions = ['LSP handlers run one at a time (the driver awaits each service.call); tower-lsp\'s concurrent dispatch under client back-pressure is outside the model',
                       'tokio time is paused; the driver lets every spawned task run to its next suspension point after each step',
                       'the correspondence uses manifests with at most one dependency per revision (one fetch per task)']
    if tier == 'thorough' and proofs_ok:
        C.coqchk(rep, ['VL.Props.C13'])
    return rep.finish()
