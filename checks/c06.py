"""C06 - no document, message or registry reply can crash or hang the server."""
import collections
import json
import random
import subprocess
from . import common as C
from . import parselib as P
from . import manifests as M

PID = 'C06'
PINS = C.load_pins('C06')
PROOF_FILES = ['Proofs/TotalProofs.v', 'Proofs/CstProofs.v', 'Props/C06.v']
VERSIONS = ['1.0.0', '1.2.3', '2.0.0', '2.0.0-beta.1', 'v1.0.0', 'v4', 'v4.1.2', '0.0.1', 'v0.0.0-20210101000000-abcdefabcdef', 'not a version', '']
URI = {'package_json': 'file:///w/package.json', 'deno_json': 'file:///w/deno.json', 'cargo_toml': 'file:///w/Cargo.toml', 'pyproject_toml': 'file:///w/pyproject.toml',
       'pnpm_workspace': 'file:///w/pnpm-workspace.yaml', 'github_actions': 'file:///w/.github/workflows/ci.yml', 'go_mod': 'file:///w/go.mod'}
REG = {'package_json': 'npm', 'deno_json': 'jsr', 'cargo_toml': 'crates_io', 'pyproject_toml': 'pypi', 'pnpm_workspace': 'pnpm_catalog', 'github_actions': 'github_actions', 'go_mod': 'go_proxy'}
SPECS = ['é 1', '>=1.0.0  <2.0.0', '^', '~', '>=', '1.x || ', '|| 1', '1 - ', ' - 2', '*.*', '99999999999999999999.0.0', '1.0.0-', 'v', '=v1', '^^1', '>=1 <', 'a' * 300, '1.0.0 ' * 50,
         ' 1.0.0', '1.0.0 ', '０.１.２', '1..2', '.1', '1.', '-1', '+1', '1.0.0+', '>=1.0.0,', ',', '=', '==', '~=1', '!=', '<>1', 'latest', 'LATEST', 'nexK']


def straddles(base):
    """base with one character replaced by a 2-byte and by a 3-byte character, at every position: whatever byte offset a
    piece of code slices or splits at, some variant has a multi-byte character straddling it"""
    out = []
    for i in range(len(base)):
        out.append(base[:i] + 'é' + base[i + 1:])
        out.append(base[:i] + '✓' + base[i + 1:])
    return out


STRADDLE_BASES = {
    'go_mod': ['v0.14.0-0.20210101000000-abcdefabcdef', 'v0.0.0-20210101000000-abcdefabcdef', 'v2.0.0+incompatible'],
    'package_json': ['>=1.0.0 <2.0.0', '1.0.0 - 2.0.0', '^1.2.3 || ~2.0.0'],
    'pnpm_workspace': ['>=1.0.0 <2.0.0', '^1.2.3'],
    'deno_json': ['^1.2.3'],
    'cargo_toml': ['>=1.0.0, <2.0.0', '~1.2.3'],
    'pyproject_toml': ['>=1.0,<2.0', '~=1.4.2'],
    'github_actions': ['v4.1.2', '8f152de45cc393bb48ce5d89d36b731f54556e65'],
}


def damaged(rnd, tier):
    docs = []
    per = 60 if tier == 'quick' else 2500
    for fmt, g in M.GENERATORS.items():
        for _ in range(per):
            t = g(rnd).text
            for _ in range(rnd.randrange(0, 4)):
                t = M.mutate(rnd, t)
            if rnd.random() < 0.25:
                # plant a hostile spec where a version-like token stands
                import re
                cands = list(re.finditer(r'[\^~>=<]*v?\d+\.\d+(\.\d+)?', t))
                if cands:
                    m = rnd.choice(cands)
                    t = t[:m.start()] + rnd.choice(SPECS) + t[m.end():]
            docs.append((fmt, t))
        # every hostile spec once, planted where a version stands
        import re as _re
        for spec in SPECS + [x for b in STRADDLE_BASES.get(fmt, []) for x in straddles(b)]:
            for _try in range(5):
                t = g(rnd).text
                cands = list(_re.finditer(r'[\^~>=<]*v?\d+\.\d+(\.\d+)?', t))
                if cands:
                    m = rnd.choice(cands)
                    docs.append((fmt, t[:m.start()] + spec + t[m.end():]))
                    break
        # YAML scalars that span lines (quoted, plain continuation, folded / literal block scalars)
        if fmt in ('github_actions', 'pnpm_workspace'):
            for _ in range(12 if tier == 'quick' else 300):
                t = g(rnd).text
                ls = t.split('\n')
                idx = [k for k, l in enumerate(ls) if (_re.search(r'uses[\'"]?:\s*\S', l) if fmt == 'github_actions' else _re.match(r'^\s+\S+:\s*\S', l))]
                if not idx:
                    continue
                k = rnd.choice(idx)
                key, val = ls[k].split(':', 1)
                val = val.split(' #')[0].strip().strip('"\'')
                ind = ' ' * (len(key) - len(key.lstrip()) + 4)
                cut = rnd.randrange(1, max(2, len(val)))
                form = rnd.choice(['dq', 'sq', 'plain', 'fold', 'lit'])
                if form == 'dq':
                    ls[k] = key + ': "' + val[:cut] + '\n' + ind + val[cut:] + '"'
                elif form == 'sq':
                    ls[k] = key + ": '" + val[:cut] + '\n' + ind + val[cut:] + "'"
                elif form == 'plain':
                    ls[k] = key + ': ' + val[:cut] + '\n' + ind + val[cut:]
                elif form == 'fold':
                    ls[k] = key + ': >-\n' + ind + val[:cut] + '\n' + ind + val[cut:]
                else:
                    ls[k] = key + ': |\n' + ind + val
                docs.append((fmt, '\n'.join(ls)))
        # every prefix of one document, and a large one
        t = g(rnd).text
        step = max(1, len(t) // (30 if tier == 'quick' else 300))
        docs += [(fmt, t[:k]) for k in range(0, len(t) + 1, step)]
        big = g(rnd).text
        docs.append((fmt, big * (40 if tier == 'quick' else 400)))
        docs.append((fmt, ('[' * 400 + '{' * 400) if fmt != 'go_mod' else 'require (\n' * 2000))
        docs.append((fmt, '"' * 5000))
        docs.append((fmt, rnd.choice(['﻿', '\x00', '\r', ' ', '🎉']) * 300 + t))
    return docs


def run_robust(docs, rnd, timeout=3000):
    """the whole per-document pipeline; restarts the harness after a hang or a process-level crash"""
    lines = []
    for i, (fmt, t) in enumerate(docs):
        nl = t.count('\n') + 1
        cursors = [[rnd.randrange(nl + 2), rnd.randrange(0, 120)] for _ in range(6)] + [[0, 0], [nl + 5, 0], [2 ** 31, 2 ** 31], [4294967295, 4294967295]]
        lines.append(json.dumps({'id': i, 'fmt': fmt, 'text': t, 'versions': VERSIONS, 'cursors': cursors}))
    results = {}
    start = 0
    crashes = []
    while start < len(lines):
        try:
            p = subprocess.run([C.HARNESS_BIN, 'robust', '--limit-ms', '20000'], env=C.ENV, input='\n'.join(lines[start:]) + '\n', stdout=subprocess.PIPE, stderr=subprocess.PIPE, timeout=timeout, text=True)
        except subprocess.TimeoutExpired:
            crashes.append((start, 'harness timeout'))
            break
        n = 0
        for l in p.stdout.split('\n'):
            if l.startswith('{'):
                o = json.loads(l)
                results[o['in']['id']] = o['out']
                n += 1
        if p.returncode == 0:
            break
        if p.returncode == 3:
            start += n            # the last emitted case is the hang; go on after it
        else:
            crashes.append((start + n, f'process exit {p.returncode}: {p.stderr[-300:]}'))
            start += n + 1
    return results, crashes


def service_scripts(rnd, tier):
    scripts = []
    n = 40 if tier == 'quick' else 600
    fmts = list(M.GENERATORS)
    for _ in range(n):
        steps, prefill, names = [], [], set()
        open_uris = []
        for _ in range(rnd.randrange(3, 9)):
            k = rnd.random()
            fmt = rnd.choice(fmts)
            uri = URI[fmt] if rnd.random() < 0.85 else rnd.choice(['file:///w/notes.txt', 'file:///w/x.github/workflows/a.yml', 'untitled:1'])
            if k < 0.35 or not open_uris:
                d = M.GENERATORS[fmt](rnd)
                t = d.text
                for _ in range(rnd.randrange(0, 3)):
                    t = M.mutate(rnd, t)
                for x in d.declared:
                    names.add((REG[fmt], x['name']))
                steps.append({'op': 'open', 'uri': uri, 'text': t})
                open_uris.append((uri, fmt))
            elif k < 0.65:
                uri, fmt = rnd.choice(open_uris)
                d = M.GENERATORS[fmt](rnd)
                t = d.text
                for _ in range(rnd.randrange(0, 4)):
                    t = M.mutate(rnd, t)
                for x in d.declared:
                    names.add((REG[fmt], x['name']))
                steps.append({'op': 'change', 'uri': uri, 'text': t})
                if rnd.random() < 0.3:
                    steps[-1]['pre_texts'] = [M.mutate(rnd, d.text)]      # an earlier change of the same notification
            elif k < 0.9:
                uri, fmt = rnd.choice(open_uris + [('file:///w/never-opened.json', 'package_json')])
                steps.append({'op': 'action', 'uri': uri, 'line': rnd.choice([0, 1, 2, 3, 5, 8, 13, 400, 4294967295]), 'character': rnd.choice([0, 1, 7, 12, 20, 33, 200, 4294967295])})
            else:
                uri, fmt = rnd.choice(open_uris)
                steps.append({'op': 'close', 'uri': uri})
        for reg, nm in sorted(names):
            prefill.append({'name': nm, 'reg': reg, 'vs': [v for v in VERSIONS if v]})
        scripts.append({'registry': {}, 'prefill': prefill, 'config': 'none', 'gated': False, 'steps': steps})
    return scripts


def run(tier, seed):
    rep = C.Report(PID, tier, seed, 'proof')
    proofs_ok = C.standard_proof_phase(rep, ['parsers'], ['theories/Props/C06.vo', 'theories/Run/ParseRun.vo', 'theories/Proofs/ParserPins.vo'], 'Props.C06', PINS['theorems'], PROOF_FILES, [], imports=PINS['imports'])
    hok, hlog = C.build_harness()
    if not hok:
        rep.broke('harness does not build against /repo', hlog[-1500:])
        return rep.finish()
    rnd = random.Random(seed * 65537 + 6)
    docs = damaged(rnd, tier)
    results, crashes = run_robust(docs, rnd)
    stats = collections.Counter()
    suspects = []
    for i, (fmt, t) in enumerate(docs):
        r = results.get(i)
        if r is None:
            continue
        if r == 'hang':
            rep.violation(f'{fmt}: the document pipeline (parse, diagnostics, code actions) did not return within 20 s', {'format': fmt, 'document': t[:20000], 'length': len(t)})
            continue
        stats['documents'] += 1
        stats['max_ms'] = max(stats['max_ms'], r.get('ms', 0))
        for stage in ('parse', 'diag', 'actions'):
            if r[stage] == 'panic':
                suspects.append((i, stage))
    for i, why in crashes:
        if i < len(docs):
            rep.violation(f'{docs[i][0]}: the process died while handling a document ({why})', {'format': docs[i][0], 'document': docs[i][1][:20000], 'length': len(docs[i][1])})
    # attribute parser panics: pep508_rs (third party) is a listed finding, anything else is new
    if suspects:
        sd = [docs[i] for i, _ in suspects]
        pouts, err = P.run_docs([(f, t) for f, t in sd if len(t) < 200000])
        for (i, stage), o in zip(suspects, pouts):
            fmt, t = docs[i]
            tape = o['out'].get('pep508', [])
            if stage == 'parse' and fmt == 'pyproject_toml' and any(x[1] == 'panic' for x in tape):
                rep.known('C06-pep508-panic-on-malformed-requirement', {'requirement': [x[0] for x in tape if x[1] == 'panic'][:3], 'document': t[:400]})
            else:
                rep.violation(f'{fmt}: {stage} panics on a document', {'format': fmt, 'stage': stage, 'document': t[:20000]})
    # contract monitoring + correspondence of the walk models on the damaged documents (panics included)
    small = [(f, t) for f, t in docs if len(t.encode('utf-8')) < 4000]
    small = small[:(700 if tier == 'quick' else 20000)]
    pouts, err = P.run_docs(small)
    if err:
        rep.broke('harness stream parse failed', err)
    if proofs_ok and pouts:
        bad, nev = P.correspondence(rep, PID, small, pouts)
        for i in sorted(bad)[:1]:
            rep.broke('correspondence Model.Walks / Model.GoMod vs the parsers on damaged documents' if bad[i] != 3 else 'a tree violates wf_cst', {'first': {'format': small[i][0], 'document': small[i][1], 'impl': pouts[i]['out']['pkgs'], 'code': bad[i]}, 'count': len(bad)})
        terms = [P.case_term(f, t, o['out']) for (f, t), o in zip(small, pouts)]
        outside, errs = C.coq_eval_verdicts(PID, 'contract', P.IMPORTS, 'parse_case', terms, 'parse_safe_contract', timeout=1500)
        for e in errs:
            rep.broke('contract evaluation failed', e)
        rep.cov['streams']['totality_theorems'] = {'trees': len(terms), 'inside_hypotheses': len(terms) - len(outside),
                                                   'node_safe_fails': sum(1 for v in outside.values() if v == 1), 'lone_quote': sum(1 for v in outside.values() if v == 2)}
        rep.cov['traces_validated_against_impl'] = nev - len(bad)
        # a tree outside the hypotheses is a candidate failing input: the implementation must still not have panicked on it
        for k in outside:
            if pouts[k]['out']['pkgs'] == 'panic' and not (small[k][0] == 'pyproject_toml' and any(x[1] == 'panic' for x in pouts[k]['out'].get('pep508', []))):
                rep.violation(f'{small[k][0]}: the parser panics on a tree outside the totality hypotheses', {'format': small[k][0], 'document': small[k][1]})
    # request sequences on the in-process LspService
    scripts = service_scripts(rnd, tier)
    done = 0
    while done < len(scripts):
        chunk = scripts[done:]
        try:
            p = subprocess.run([C.HARNESS_BIN, 'backend'], env=C.ENV, input='\n'.join(json.dumps(s) for s in chunk) + '\n', stdout=subprocess.PIPE, stderr=subprocess.PIPE, timeout=3000, text=True)
        except subprocess.TimeoutExpired:
            rep.violation('the in-process server stopped answering (a request sequence did not finish)', {'script': chunk[0]})
            break
        outs = [json.loads(l) for l in p.stdout.split('\n') if l.startswith('{')]
        for s, o in zip(chunk, outs):
            stats['service_scripts'] += 1
            for st, so in zip(s['steps'], o['out']['steps']):
                stats['service_requests'] += 1
                if st['op'] == 'action' and so['result'] == 'no-response':
                    rep.violation('a codeAction request got no response', {'script': s, 'step': st})
        done += len(outs)
        if p.returncode != 0:
            if done < len(scripts):
                # the listed third-party panic (pep508_rs on a malformed requirement) unwinds through the handler and ends the
                # process: re-read the script's pyproject texts with the parse stream, whose PEP 508 tape names the panic
                pys = [('pyproject_toml', st['text']) for st in scripts[done]['steps'] if st['op'] in ('open', 'change') and st['uri'].endswith('pyproject.toml')]
                tapes, _ = P.run_docs(pys) if pys else ([], None)
                bad_req = [x[0] for o in tapes or [] for x in o['out'].get('pep508', []) if x[1] == 'panic']
                if bad_req:
                    rep.known('C06-pep508-panic-on-malformed-requirement', {'requirement': bad_req[:3], 'script': scripts[done]})
                else:
                    rep.violation(f'the in-process server died during a request sequence (exit {p.returncode})', {'script': scripts[done], 'stderr': p.stderr[-400:]})
            done += 1
        else:
            break
    # registry replies: whatever bytes a registry returns, the adapter returns (no panic, no hang) - the C15 generators,
    # judged here for panics and hangs only
    from . import c15 as R15
    rr = random.Random(seed * 31 + 15)
    rgen = R15.corpus_cases() + [R15.gen_case(rr) for _ in range(500 if tier == 'quick' else 15000)]
    routs, err = C.run_harness('registry', 0, 0, stdin='\n'.join(json.dumps(g[0]) for g in rgen) + '\n', timeout=3000)
    if err:
        rep.broke('harness stream registry failed', err)
    nreg = 0
    for g, o in zip(rgen, routs or []):
        nreg += 1
        if o['out']['result'] in ('panic', 'hang'):
            rep.violation(f'registry adapter {g[0]["adapter"]} {o["out"]["result"]}s on a reply', {'script': g[0], 'result': o['out']['result']})
    rep.cov['streams']['registry_replies'] = {'replies': nreg}
    rep.cov.update({'evaluations': stats['documents'] + stats['service_requests'], 'distinct_nontrivial': len({t for _, t in docs}),
                    'rule': 'per format: generated manifests with 0-3 mutations (truncation, token splicing, Unicode injection, deletion, block moves), hostile version specs planted where a version stands '
                            '(non-ASCII, dangling operators, huge numbers, repeated blanks), sampled prefixes of a document, a large document (x40 / x400), 800 nested brackets, 5000 quotes, a prefix of BOMs / NULs / '
                            'line separators; each through parse -> generate_diagnostics over a cache holding versions for every reported name -> code actions at 10 cursors (incl. beyond the document and u32::MAX), '
                            'under catch_unwind and a 20 s watchdog; plus random didOpen/didChange/codeAction/didClose sequences on the in-process LspService; non-trivial = distinct documents'})
    rep.cov['streams']['robust'] = dict(stats)
    rep.cov['samples'] = [{'format': f, 'document': t[:200]} for f, t in docs[:2]]
    rep.assumptions = ['the totality theorems cover the first-party walks (every slicing / underflow site is a None of the model); tree-sitter, pep508_rs, regex, rusqlite, tokio and tower-lsp are exercised, not proved',
                       'registry replies: panics and hangs of the adapters are watched by the C15 stream (20 s watchdog per reply)',
                       'debug-build semantics (overflow checks on): a release build wraps instead of panicking on usize underflow']
    if tier == 'thorough' and proofs_ok:
        C.coqchk(rep, ['VL.Props.C06'])
    return rep.finish()
