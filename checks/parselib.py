"""Shared by C04 / C05 / C06 / C07: run documents through the real parsers (harness `parse`), turn the
dumped CSTs into Gallina terms and compare the walk models with the implementation."""
import json
from . import common as C
from .manifests import FMT_CODE

IMPORTS = 'From Coq Require Import ZArith.\nFrom VL Require Import Lib.Bytes Lib.Text Lib.Cst Model.Walks Model.GoMod Run.ParseRun.\n'


def g_node(n):
    kind, field, sb, eb, row, col, missing, kids = n
    return f'(Node {C.g_bytes(kind)} {C.g_bytes(field)} {sb} {eb} {row} {col} {C.g_bool(missing)} [{"; ".join(g_node(k) for k in kids)}])'


def g_pkg(p):
    extra = 'None' if p['extra'] is None else f'(Some ({C.g_bytes(p["extra"][0])}, {p["extra"][1]}, {p["extra"][2]}))'
    return (f'(mkPkg {C.g_bytes(p["name"])} {C.g_bytes(p["version"])} {C.g_opt(p["hash"], C.g_bytes)} '
            f'{p["start"]} {p["end"]} {p["line"]} {p["col"]} {extra})')


def g_pep(x):
    if x == 'err':
        return 'PepErr'
    if x == 'panic':
        return 'PepPanic'
    if x.get('url'):
        return 'PepUrl'
    return f'(PepSpec {C.g_bytes(x["name"])} {C.g_bytes(x["spec"])})'


def case_term(fmt, text, out):
    cst = 'None' if out['cst'] is None else f'(Some {g_node(out["cst"])})'
    tape = C.g_list([C.g_pair(C.g_bytes(s), g_pep(p)) for s, p in out['pep508']])
    impl = 'IPanic' if out['pkgs'] == 'panic' else ('IPanic' if isinstance(out['pkgs'], dict) else f'(IPkgs {C.g_list([g_pkg(p) for p in out["pkgs"]])})')
    return f'(mkPC {FMT_CODE[fmt]} {C.g_bytes(text)} {cst} {tape} {impl})'


def run_docs(docs, timeout=3000):
    """docs: list of (fmt, text).  Returns the harness outputs (same order) or raises."""
    lines = '\n'.join(json.dumps({'fmt': f, 'text': t}) for f, t in docs) + '\n'
    outs, err = C.run_harness('parse', 0, 0, stdin=lines, timeout=timeout)
    return outs or [], err


def correspondence(rep, pid, docs, outs, tag='corr', max_cst_bytes=6000):
    """model walk vs implementation on every document whose CST is small enough to evaluate in coqc"""
    terms, idx = [], []
    for i, ((fmt, text), o) in enumerate(zip(docs, outs)):
        if len(text.encode('utf-8')) > max_cst_bytes:
            continue
        terms.append(case_term(fmt, text, o['out']))
        idx.append(i)
    bad, errs = C.coq_eval_verdicts(pid, tag, IMPORTS, 'parse_case', terms, 'parse_corr', timeout=1500)
    for e in errs:
        rep.broke('walk model evaluation failed', e)
    res = {idx[k]: v for k, v in bad.items()}
    return res, len(terms)
