"""Reference PEP 440 answers from `packaging` (run with python3-vt).
stdin: JSON list of {"spec":..., "versions":[...]}; stdout: JSON list of
{"spec_ok": bool, "obs": [{"ver_ok": bool, "contains": bool}]}"""
import json
import sys
from packaging.specifiers import SpecifierSet, InvalidSpecifier
from packaging.version import Version, InvalidVersion

out = []
for case in json.load(sys.stdin):
    try:
        ss = SpecifierSet(case['spec'])
        ok = True
    except InvalidSpecifier:
        ss, ok = None, False
    obs = []
    for v in case['versions']:
        try:
            pv = Version(v)
            vok = True
        except InvalidVersion:
            pv, vok = None, False
        obs.append({'ver_ok': vok, 'contains': bool(ok and vok and ss.contains(pv, prereleases=True))})
    out.append({'spec_ok': ok, 'obs': obs})
json.dump(out, sys.stdout)
