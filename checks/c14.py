"""C14 - every documented configuration option takes effect; bad input is harmless."""
import itertools
import json
import random
from . import common as C

PID = 'C14'
PINS = C.load_pins('C14')
PROOF_FILES = ['Proofs/ConfigProofs.v', 'Proofs/ConfigPins.v', 'Proofs/BackendProofs.v', 'Props/C14.v']
IMPORTS = 'From Coq Require Import ZArith.\nFrom VL Require Import Lib.Bytes Model.Config Run.ConfigRun.\nOpen Scope Z_scope.'
KEYS = ['npm', 'crates', 'goProxy', 'github', 'pnpmCatalog', 'jsr', 'pypi']
DOCS = {  # registries key -> (uri, text with one outdated dependency, cache registry, package)
    'npm': ('file:///w/package.json', '{\n  "dependencies": {\n    "lodash": "1.0.0"\n  }\n}', 'npm', 'lodash'),
    'crates': ('file:///w/Cargo.toml', '[dependencies]\nserde = "=1.0.0"\n', 'crates_io', 'serde'),
    'goProxy': ('file:///w/go.mod', 'module m\n\nrequire golang.org/x/text v1.0.0\n', 'go_proxy', 'golang.org/x/text'),
    'github': ('file:///w/.github/workflows/ci.yml', 'jobs:\n  b:\n    steps:\n      - uses: actions/checkout@v1.0.0\n', 'github_actions', 'actions/checkout'),
    'pnpmCatalog': ('file:///w/pnpm-workspace.yaml', 'catalog:\n  lodash: 1.0.0\n', 'pnpm_catalog', 'lodash'),
    'jsr': ('file:///w/deno.json', '{\n  "imports": {\n    "@std/path": "jsr:@std/path@1.0.0"\n  }\n}', 'jsr', '@std/path'),
    'pypi': ('file:///w/pyproject.toml', '[project]\ndependencies = [\n  "requests==1.0.0"\n]\n', 'pypi', 'requests'),
}


def g_json(v):
    if v is None:
        return 'JNull'
    if isinstance(v, bool):
        return f'(JBool {C.g_bool(v)})'
    if isinstance(v, int):
        return f'(JInt ({v})%Z)'
    if isinstance(v, float):
        return 'JFloat'
    if isinstance(v, str):
        return f'(JStr {C.g_bytes(v)})'
    if isinstance(v, list):
        return '(JArr [' + '; '.join(g_json(x) for x in v) + '])'
    return '(JObj [' + '; '.join('(' + C.g_bytes(k) + ', ' + g_json(x) + ')' for k, x in v.items()) + '])'


def rnd_value(rnd, depth=0):
    k = rnd.random()
    if k < 0.15:
        return None
    if k < 0.3:
        return rnd.choice([True, False])
    if k < 0.45:
        return rnd.choice([0, 1, -1, 1000, 86400000, 2 ** 63 - 1, 2 ** 63, -2 ** 63, -2 ** 63 - 1, 10 ** 30])
    if k < 0.5:
        return 1.5
    if k < 0.6:
        return rnd.choice(['true', '', 'x'])
    if k < 0.75 and depth < 2:
        return [rnd_value(rnd, depth + 1) for _ in range(rnd.randrange(0, 4))]
    return {}


def rnd_registry(rnd):
    k = rnd.random()
    if k < 0.55:
        return {'enabled': rnd.choice([True, False])}
    if k < 0.7:
        return {}
    if k < 0.8:
        return {'enabled': rnd.choice([True, False]), 'extra': 1}
    if k < 0.87:
        return [rnd.choice([True, False])]
    return rnd_value(rnd, 1)


def rnd_config(rnd):
    k = rnd.random()
    if k < 0.08:
        return rnd_value(rnd)
    c = {}
    if rnd.random() < 0.6:
        regs = {key: rnd_registry(rnd) for key in KEYS if rnd.random() < 0.6}
        if rnd.random() < 0.15:
            regs[rnd.choice(['NPM', 'go_proxy', 'pnpm_catalog', 'extra'])] = {'enabled': False}
        c['registries'] = regs if rnd.random() < 0.92 else rnd_value(rnd)
    if rnd.random() < 0.5:
        c['cache'] = rnd.choice([{'refreshInterval': rnd.choice([0, 1000, 86400000, -5, 2 ** 63, 1.5, '1000', None, True])}, {}, {'refresh_interval': 5}, [5], [], None, 5])
    if rnd.random() < 0.5:
        c[rnd.choice(['ignorePrerelease', 'ignorePrerelease', 'ignore_prerelease', 'IgnorePrerelease'])] = rnd.choice([True, False, False, 0, 'false', None])
    if rnd.random() < 0.2:
        c[rnd.choice(['unknown', 'Cache', 'registry'])] = rnd_value(rnd)
    return c


def documented(answer):
    """what the documentation says an object-shaped answer means (None: not object shaped / malformed somewhere)"""
    if answer is None:
        return {'enabled': {k: True for k in KEYS}, 'ignore': True, 'interval': 86400000}
    if not isinstance(answer, dict):
        return None
    regs = answer.get('registries', {})
    if not isinstance(regs, dict):
        return None
    en = {}
    for k in KEYS:
        r = regs.get(k, {})
        if not isinstance(r, dict):
            return None
        e = r.get('enabled', True)
        if not isinstance(e, bool):
            return None
        en[k] = e
    ign = answer.get('ignorePrerelease', True)
    cache = answer.get('cache', {})
    if not isinstance(ign, bool) or not isinstance(cache, dict):
        return None
    iv = cache.get('refreshInterval', 86400000)
    if isinstance(iv, bool) or not isinstance(iv, int) or not (-2 ** 63 <= iv < 2 ** 63):
        return None
    return {'enabled': en, 'ignore': ign, 'interval': iv}


def run(tier, seed):
    rep = C.Report(PID, tier, seed, 'proof')
    proofs_ok = C.standard_proof_phase(rep, ['detect', 'config'], ['theories/Props/C14.vo', 'theories/Run/ConfigRun.vo'], 'Props.C14', PINS['theorems'], PROOF_FILES, [], imports=PINS['imports'])
    hok, hlog = C.build_harness()
    if not hok:
        rep.broke('harness does not build against /repo', hlog[-1500:])
        return rep.finish()
    rnd = random.Random(seed)
    # ---- decoding level: every subset of the 7 flags with every assignment, plus random answers ----
    answers = []
    for present in range(128):
        keys = [k for i, k in enumerate(KEYS) if present >> i & 1]
        for vals in ([True] * 7, [False] * 7, [bool((present * 37 + i) % 2) for i in range(7)]):
            answers.append({'registries': {k: {'enabled': vals[KEYS.index(k)]} for k in keys}})
    for ign in (True, False):
        for iv in (0, 1, 1000, 86400000, 86400001, 2 ** 63 - 1):
            answers.append({'ignorePrerelease': ign, 'cache': {'refreshInterval': iv}})
    answers += [None, {}, [], [{}], [{}, {}, True], [{}, {}, True, 1], 5, 'x', True, 1.5, {'cache': None}, {'registries': None}, {'registries': {'npm': None}},
                {'registries': {'npm': {'enabled': None}}}, {'registries': {'npm': {'enabled': 'false'}}}, {'registries': {'npm': []}}, {'registries': {'npm': [False]}},
                {'registries': [[False], [True]]}, {'ignorePrerelease': 0}, {'cache': {'refreshInterval': 1.0}}, {'cache': {'refreshInterval': 2 ** 63}}]
    answers += [rnd_config(rnd) for _ in range(600 if tier == 'quick' else 20000)]
    cases, err = C.run_harness('config', 0, 0, stdin='\n'.join(json.dumps(a) for a in answers) + '\n')
    if err:
        rep.broke('harness config', err)
    cases = cases or []
    terms = []
    ndoc = 0
    for a, c in zip(answers, cases):
        o = c['out']
        impl = 'None' if o == 'err' else f'(Some (({o["ok"]["refresh_interval"]})%Z, {C.g_bool(o["ok"]["ignore_prerelease"])}, [{"; ".join(C.g_bool(e[1]) for e in o["ok"]["enabled"])}]))'
        terms.append(C.g_pair(g_json(a), impl))
        # property oracle: documented meaning of well-formed object-shaped answers
        d = documented(a)
        if d is not None and a is not None:
            ndoc += 1
            if o == 'err':
                rep.violation(f'a well-formed configuration answer is rejected: {json.dumps(a)[:300]}', {'answer': a, 'impl': o})
            else:
                got = {'enabled': dict(map(tuple, o['ok']['enabled'])), 'ignore': o['ok']['ignore_prerelease'], 'interval': int(o['ok']['refresh_interval'])}
                if got != d:
                    rep.violation(f'configuration answer decoded differently from its documented meaning: {json.dumps(a)[:300]}', {'answer': a, 'impl': got, 'documented': d})
    bad, errs = C.coq_eval_verdicts(PID, 'config', IMPORTS, 'config_case', terms, 'config_corr')
    for e in errs:
        rep.broke('config model evaluation failed', e)
    for k in sorted(bad)[:3]:
        rep.broke('correspondence Model.Config.dec_config vs serde_json::from_value::<LspConfig>', {'answer': answers[k], 'impl': cases[k]['out']})
    # ---- service level: the answer takes effect on the in-process LspService ----
    scripts, metas = [], []
    svc_answers = [None, {}, 'none', 'error', 5, {'registries': {'npm': {'enabled': 'no'}}}]
    for present in ([0, 127] + [1 << i for i in range(7)] + [rnd.randrange(128) for _ in range(6 if tier == 'quick' else 100)]):
        svc_answers.append({'registries': {k: {'enabled': not (present >> i & 1)} for i, k in enumerate(KEYS) if rnd.random() < 0.8}})
    svc_answers += [{'ignorePrerelease': False}, {'ignorePrerelease': True}, {'registries': {'jsr': {}}, 'unknown': [1, 2]}]
    for a in svc_answers:
        keys = rnd.sample(KEYS, 4) if isinstance(a, dict) and a.get('registries') else KEYS
        steps = [{'op': 'config_answer'}]
        prefill = []
        for k in keys:
            uri, text, reg, pkg = DOCS[k]
            steps.append({'op': 'open', 'uri': uri, 'text': text})
            line = [i for i, l in enumerate(text.split('\n')) if '1.0.0' in l][0]
            col = text.split('\n')[line].index('jsr:') + 1 if k == 'jsr' else text.split('\n')[line].index('1.0.0') + 1
            steps.append({'op': 'action', 'uri': uri, 'line': line, 'character': col})
            vprefix = 'v' if k in ('goProxy', 'github') else ''
            prefill.append({'name': pkg, 'reg': reg, 'vs': [vprefix + '1.0.0', vprefix + '1.0.1', vprefix + '2.0.0-beta.1']})
        scripts.append({'registry': {}, 'prefill': prefill, 'config': a, 'gated': False, 'steps': steps})
        metas.append((a, keys))
    # late answers: the documents are opened (and asked for actions) BEFORE the configuration request is answered; once it
    # is answered, a disabled registry's document gets no code actions and no diagnostics for further edits, the others keep both
    late_scripts, late_metas = [], []
    for a in [x for x in svc_answers if isinstance(x, dict) and isinstance(x.get('registries'), dict) and documented(x) is not None][:(8 if tier == 'quick' else 60)]:
        keys = rnd.sample(KEYS, 4)
        steps, prefill, pos = [], [], {}
        for k in keys:
            uri, text, reg, pkg = DOCS[k]
            line = [i for i, l in enumerate(text.split('\n')) if '1.0.0' in l][0]
            col = text.split('\n')[line].index('jsr:') + 1 if k == 'jsr' else text.split('\n')[line].index('1.0.0') + 1
            pos[k] = (line, col)
            steps.append({'op': 'open', 'uri': uri, 'text': text})
            steps.append({'op': 'action', 'uri': uri, 'line': line, 'character': col})
            vprefix = 'v' if k in ('goProxy', 'github') else ''
            prefill.append({'name': pkg, 'reg': reg, 'vs': [vprefix + '1.0.0', vprefix + '1.0.1', vprefix + '2.0.0-beta.1']})
        steps.append({'op': 'config_answer'})
        for k in keys:
            uri, text, reg, pkg = DOCS[k]
            steps.append({'op': 'action', 'uri': uri, 'line': pos[k][0], 'character': pos[k][1]})
            steps.append({'op': 'change', 'uri': uri, 'text': text + '\n'})
        late_scripts.append({'registry': {}, 'prefill': prefill, 'config': a, 'gated': False, 'steps': steps})
        late_metas.append((a, keys))
    louts, err = C.run_harness('backend', 0, 0, stdin='\n'.join(json.dumps(s) for s in late_scripts) + '\n', timeout=3000)
    if err:
        rep.broke('harness backend (late configuration answer)', err)
    nlate = 0
    for (a, keys), o in zip(late_metas, louts or []):
        steps = o['out']['steps']
        d = documented(a)
        n = len(keys)
        for j, k in enumerate(keys):
            before_open, before_act = steps[2 * j], steps[2 * j + 1]
            after_act, after_change = steps[2 * n + 1 + 2 * j], steps[2 * n + 2 + 2 * j]
            offered0 = isinstance(before_act['result'], dict) and before_act['result'].get('ok') not in (None, [])
            pubs0 = [t for t in before_open['traffic'] if t['kind'] == 'publish']
            offered = isinstance(after_act['result'], dict) and after_act['result'].get('ok') not in (None, [])
            pubs = [t for t in after_change['traffic'] if t['kind'] == 'publish' and t['uri'] == DOCS[k][0]]
            desc = {'configuration_answer_given_after_opening': a, 'registry_key': k, 'document': DOCS[k][0], 'code_action_after_answer': after_act['result'], 'publications_after_answer': pubs}
            nlate += 1
            if not offered0 or not pubs0 or not pubs0[-1]['diags']:
                rep.violation(f'before the configuration is answered the defaults apply, but the document of {k} got no diagnostics / code actions', desc)
            if d['enabled'][k]:
                if not offered or not pubs or not pubs[-1]['diags']:
                    rep.violation(f'registry {k} stays enabled by a configuration answer given after its document was opened, but the document lost its diagnostics or code actions', desc)
            else:
                if offered or pubs:
                    rep.violation(f'registry {k} is disabled by a configuration answer given after its document was opened, but the document still receives code actions or diagnostics', desc)
    rep.cov['streams']['late_answer'] = {'scripts': len(late_scripts), 'documents_judged': nlate}
    outs, err = C.run_harness('backend', 0, 0, stdin='\n'.join(json.dumps(s) for s in scripts) + '\n', timeout=3000)
    if err:
        rep.broke('harness backend (config)', err)
    effects = {'disabled_silent': 0, 'enabled_checked': 0, 'reported': 0}
    for (a, keys), o in zip(metas, outs or []):
        steps = o['out']['steps']
        malformed = a not in ('none', 'error') and a is not None and documented(a) is None
        d = documented(a) if a not in ('none', 'error') and not malformed else documented(None)
        shown = [t for s in steps for t in s['traffic'] if t['kind'] == 'show']
        if malformed and not any('Failed to parse configuration' in str(t['message']) for t in shown):
            rep.violation('a malformed configuration answer is not reported to the user', {'answer': a, 'traffic': shown})
        if not malformed and any('Failed to parse configuration' in str(t['message']) for t in shown):
            rep.violation('a well-formed configuration answer is reported as malformed', {'answer': a, 'traffic': shown})
        effects['reported'] += 1 if malformed else 0
        for j, k in enumerate(keys):
            so, sa = steps[1 + 2 * j], steps[2 + 2 * j]
            pubs = [t for t in so['traffic'] if t['kind'] == 'publish']
            acts = sa['result']
            offered = isinstance(acts, dict) and acts.get('ok') not in (None, [])
            desc = {'answer': a, 'registry_key': k, 'document': DOCS[k][0], 'publications': pubs, 'code_action_result': acts}
            if d['enabled'][k]:
                effects['enabled_checked'] += 1
                if not pubs or not pubs[-1]['diags']:
                    rep.violation(f'registry {k} is enabled but its document got no diagnostics', desc)
                if not offered:
                    rep.violation(f'registry {k} is enabled but no code action is offered on its outdated dependency', desc)
            else:
                effects['disabled_silent'] += 1
                if pubs or offered:
                    rep.violation(f'registry {k} is disabled but its document still receives diagnostics or code actions', desc)
            if k == 'npm' and d['enabled'][k] and pubs:
                # open finding: ignorePrerelease is decoded but never reaches the cache
                want = 'Update available: 1.0.0 -> 1.0.1' if d['ignore'] else 'Update available: 1.0.0 -> 2.0.0-beta.1'
                msgs = [x[5] for x in pubs[-1]['diags']]
                if want not in msgs:
                    if not d['ignore'] and 'Update available: 1.0.0 -> 1.0.1' in msgs:
                        rep.known('C14-ignore-prerelease-no-effect', desc)
                    else:
                        rep.violation(f'unexpected latest for ignorePrerelease={d["ignore"]}: {msgs}', desc)
    rep.known('C14-refresh-interval-no-effect', {'see': 'the cache is constructed from LspConfig::default() in Backend::new before workspace/configuration is answered and is never reconfigured'})
    rep.cov.update({'evaluations': len(cases) + sum(len(s['steps']) for s in scripts), 'distinct_nontrivial': ndoc,
                    'rule': 'decoding: every subset of the 7 enable flags with three assignments each, both prerelease settings x 6 intervals, 22 hand-picked malformed/positional answers, random answers '
                            '(mistyped, missing, extra, renamed keys; arrays; scalars); non-trivial = well-formed object-shaped answers whose documented meaning is compared; '
                            'service: answers applied to the in-process LspService, then one document and one code-action request per registry',
                    'traces_validated_against_impl': len(terms) - len(bad)})
    rep.cov['streams']['config'] = {'answers': len(cases), 'decode_errors': sum(1 for c in cases if c['out'] == 'err'), 'service_scripts': len(scripts), 'effects': effects}
    rep.cov['samples'] = [answers[3], answers[-1], svc_answers[6]]
    rep.assumptions = ['serde_json text -> Value parsing is outside the model (the model starts at the JSON value)',
                       'refreshInterval effect on background refresh is refuted structurally (cache built from defaults), not by ageing packages']
    if tier == 'thorough' and proofs_ok:
        C.coqchk(rep, ['VL.Props.C14'])
    return rep.finish()
