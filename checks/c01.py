"""C01 - each dependency gets exactly the diagnostic its spec, cache and tags imply."""
import json
import re
import random
from . import common as C
from . import ranges as R

PID = 'C01'
PINS = C.load_pins('C01')
PROOF_FILES = ['Proofs/VerdictProofs.v', 'Proofs/CheckerPins.v', 'Proofs/GoOrderProofs.v', 'Props/C01.v']
IMPORTS = ('From VL Require Import Lib.Bytes Lib.SemVer Model.CacheDb Spec.Ranges Spec.AbsCache Run.CacheRun Run.C01Run.\nOpen Scope Z_scope.')
ECO = {'npm': 0, 'pnpm': 0, 'jsr': 0, 'crates': 1, 'go': 2, 'gha': 3}
REGSTR = {'npm': 'npm', 'pnpm': 'pnpm_catalog', 'jsr': 'jsr', 'crates': 'crates_io', 'go': 'go_proxy', 'gha': 'github_actions'}
KNOWN_TAGS = ['latest', 'next', 'beta', 'alpha', 'canary', 'rc', 'stable', 'dev', 'experimental', 'nightly', 'preview', 'insiders', 'edge']
KNOWN_IDS = {11: 'C02-partial-operand-zero-padded', 12: 'C02-valid-range-rejected', 13: 'C02-build-metadata-compared'}


def g_diag(d):
    return 'None' if d is None else f'(Some ({d[0]}%N, {C.g_bytes(d[1])}))'


def g_fills(key, fills):
    out = []
    for i, f in enumerate(fills):
        if f['op'] == 'store':
            out.append(f'(OStore {key} [{"; ".join(C.g_bytes(v) for v in f["vs"])}] {i + 1})')
        elif f['op'] == 'tags':
            out.append(f'(OTags {key} [{"; ".join("(" + C.g_bytes(a) + ", " + C.g_bytes(b) + ")" for a, b in f["m"])}] {i + 1})')
        else:
            out.append(f'(OMark {key})')
    return '[' + '; '.join(out) + ']'


def rnd_fills(rnd, versions, tags, mark_p=0.06):
    """store the versions in 1-3 batches in a random order with repetitions, tag maps interleaved"""
    vs = list(versions)
    rnd.shuffle(vs)
    fills = []
    nb = rnd.choice([1, 1, 2, 3])
    for b in range(nb):
        chunk = vs[b::nb]
        if rnd.random() < 0.3 and vs:
            chunk = chunk + [rnd.choice(vs)]
        fills.append({'op': 'store', 'vs': chunk})
    if tags is not None:
        pos = rnd.randrange(len(fills) + 1)
        if rnd.random() < 0.3:
            fills.insert(pos, {'op': 'tags', 'm': [['latest', '0.0.1'], ['old', '0.1.0']]})   # replaced below
            pos += 1
        fills.insert(rnd.randrange(pos, len(fills) + 1), {'op': 'tags', 'm': sorted(tags.items())})
        if rnd.random() < 0.2:
            fills.append({'op': 'tags', 'm': []})
    marked = rnd.random() < mark_p
    if marked:
        fills.insert(rnd.randrange(1, len(fills) + 1), {'op': 'mark'})
    return fills, marked


def run(tier, seed):
    rep = C.Report(PID, tier, seed, 'proof')
    proofs_ok = C.standard_proof_phase(rep, ['detect', 'cache', 'checker'], ['theories/Props/C01.vo', 'theories/Run/C01Run.vo'], 'Props.C01',
                                       PINS['theorems'], PROOF_FILES, [], imports=PINS['imports'])
    hok, hlog = C.build_harness()
    if not hok:
        rep.broke('harness does not build against /repo', hlog[-1500:])
        return rep.finish()
    rnd = random.Random(seed)
    quick = tier == 'quick'
    n_ast = 700 if quick else 20000
    send, meta = [], []
    junk = ['abc', '', '1.2.3.4', 'é', '>>1', 'workspace:*', 'file:../x', '^', 'LATEST', 'Next', 'x', '*', 'v1', '1.0.0 - ', 'latest ', ' latest']
    for i in range(n_ast):
        eco = rnd.choice(['npm', 'npm', 'crates', 'crates', 'pnpm', 'jsr'])
        if ECO[eco] == 0:
            ast = R.rnd_nrange(rnd) if rnd.random() < 0.5 else rnd.choice(LAT_NPM)
            printed = R.print_nrange(ast)
            g = R.g_nrange(ast)
        else:
            ast = R.rnd_creq(rnd) if rnd.random() < 0.5 else rnd.choice(LAT_CRATES)
            printed = R.print_creq(ast)
            g = R.g_creq(ast)
        window = None
        if i % 6 == 0:
            # a satisfiable window [lo, hi) written with two clauses in either order, a version inside it and the latest
            # on / next to the excluded end: which operand anchors the outdated / newer decision matters here
            M, m = rnd.choice([0, 1, 2, 7]), rnd.choice([0, 2, 9])
            lo = ('p3', M, m, rnd.choice([0, 3]), '', '')
            hi = rnd.choice([('p3', M + 1, 0, 0, '', ''), ('p3', M, m + 2, 0, '', ''), ('p3', M, m, 9, '', ''), ('p2', M + 1, 0, 'bare'), ('p1', M + 1, 'bare')])
            lo_c = (rnd.choice([3, 3, 7, 6, 2]), False, False, lo)
            hi_c = (rnd.choice([4, 4, 5]), False, False, hi)
            comps = [lo_c, hi_c] if rnd.random() < 0.5 else [hi_c, lo_c]
            if ECO[eco] == 0:
                ast = [('and', comps)]
                printed, g = R.print_nrange(ast), R.g_nrange(ast)
            else:
                ast = comps
                printed, g = R.print_creq(ast), R.g_creq(ast)
            hiv = (hi[1], hi[2] if hi[0] != 'p1' else 0, hi[3] if hi[0] == 'p3' else 0)
            inside = (M, m, lo[3] + 1, '', '')
            latest_v = rnd.choice([hiv, hiv, (hiv[0], hiv[1], hiv[2] + 1), inside[:3]]) + ('', '')
            window = [R.print_version(inside), R.print_version(latest_v)] + ([R.print_version((M, m, lo[3], '', ''))] if rnd.random() < 0.5 else [])
        versions = [R.print_version(v) for v in R.versions_near(rnd, ast, 3)]
        rnd.shuffle(versions)
        versions = versions[:rnd.choice([0, 1, 3, 6, 12])]
        if window is not None:
            top = R.print_version(latest_v)
            versions = [v for v in dict.fromkeys(window + versions[:2]) if '-' in v or v == top or tuple(int(x) for x in v.split('+')[0].split('.')) <= latest_v[:3]]
        if rnd.random() < 0.1:
            versions.append(rnd.choice(['garbage', '1.0', 'v1.0.0', '']))
        if rnd.random() < 0.08:
            versions.append(rnd.choice(['99.1.0+snapshot-1', '99.1.0+curl-8.9.0']))      # a stable release whose build metadata contains a hyphen
        tags = None
        spec = printed
        unresolved = False
        resolved_txt = printed
        k = rnd.random()
        if eco in ('npm', 'pnpm', 'jsr') and k < 0.25:
            tags = {'latest': rnd.choice(versions) if versions and rnd.random() < 0.8 else '9.9.9'}
            if rnd.random() < 0.5:
                tags[rnd.choice(['next', 'beta', 'legacy', 'Latest'])] = rnd.choice(versions) if versions and rnd.random() < 0.6 else '3.10.1'
            if rnd.random() < 0.6:
                # the spec is a dist-tag: resolved to its target when cached, silent when it is a well-known name, else an (invalid) spec
                spec = rnd.choice(list(tags) + ['next', 'beta', 'canary', 'legacy'])
                if spec in tags:
                    t = tags[spec]
                    M, m, p = (t.split('-')[0].split('+')[0].split('.') + ['0', '0'])[:3]
                    pre = t.split('-', 1)[1].split('+')[0] if '-' in t else ''
                    bd = t.split('+', 1)[1] if '+' in t else ''
                    if all(x.isdigit() for x in (M, m, p)):
                        ast = [('and', [(0, False, False, ('p3', int(M), int(m), int(p), pre, bd))])]
                        g = R.g_nrange(ast)
                        resolved_txt = t
                    else:
                        continue
                elif spec.lower() in KNOWN_TAGS:
                    unresolved = True
                else:
                    continue   # an unknown word: junk stream
        fills, marked = rnd_fills(rnd, versions, tags)
        send.append({'eco': eco, 'name': rnd.choice(['a', 'é', "a'b", '@s/p']), 'spec': spec, 'ignore_pre': rnd.random() < 0.6, 'fills': fills})
        meta.append({'kind': 'ast', 'g': g, 'unresolved': unresolved, 'versions': versions, 'marked': marked, 'resolved': resolved_txt})
    for i in range(150 if quick else 4000):
        eco = rnd.choice(['npm', 'crates', 'go', 'gha', 'pnpm', 'jsr'])
        spec = rnd.choice(junk + ['1.2.3', '^1.2.3', 'v1.2.3', 'v1', 'v1.2', '1.2.3-beta', 'v2.0.0+incompatible', 'v0.0.0-20210101000000-abcdefabcdef', '>=1.0.0 <2.0.0', '~1.2', 'latest', 'beta'])
        versions = rnd.sample(['1.2.3', '1.2.4', '2.0.0', 'v1.2.3', 'v1', 'v2.0.0', '1.0.0', '0.9.0', 'junk', '3.0.0-rc.1', 'v2.0.0+incompatible', '1.2.3-beta'], rnd.choice([0, 2, 5]))
        tags = {'latest': rnd.choice(versions + ['junk'])} if versions and rnd.random() < 0.2 else None
        bad_target = None
        if i % 5 == 0:
            # a dist-tag (well-known name or not) that IS cached and points at something that is not a version:
            # 'Invalid version format: <tag>' is due, whatever the tag is called
            spec = rnd.choice(['beta', 'next', 'canary', 'latest', 'legacy', 'rc'])
            bad_target = rnd.choice(['garbage!', '5.0.0.beta1', 'not a version'])
            tags = {'latest': rnd.choice(versions + ['1.2.3']), spec: bad_target} if spec != 'latest' else {'latest': bad_target}
        fills, marked = rnd_fills(rnd, versions, tags, mark_p=0.0 if bad_target else 0.06)
        send.append({'eco': eco, 'name': 'p', 'spec': spec, 'ignore_pre': rnd.random() < 0.6, 'fills': fills})
        meta.append({'kind': 'raw', 'marked': marked, 'bad_target': bad_target})
    # go.mod pseudo-versions (the two forms the matcher recognises) against a latest below, at and above their base
    for i in range(60 if quick else 1500):
        M_, m_, p_ = rnd.choice([0, 1, 2]), rnd.choice([0, 2]), rnd.choice([0, 3])
        ts, h = rnd.choice(['20210101000000', '20240229235959']), rnd.choice(['abcdefabcdef', '0123456789ab'])
        if rnd.random() < 0.5:
            spec, base = f'v{M_}.0.0-{ts}-{h}', (M_, 0, 0)
        else:
            spec, base = f'v{M_}.{m_}.{p_ + 1}-0.{ts}-{h}', (M_, m_, p_ + 1)
        lat = rnd.choice([base, (base[0], base[1], base[2] + 1), (base[0], base[1] + 1, 0), (base[0] + 1, 0, 0), (base[0], base[1], max(0, base[2] - 1)), (max(0, base[0] - 1), 9, 9)])
        latest = 'v%d.%d.%d' % lat + (rnd.choice(['', '+incompatible']) if lat[0] >= 2 else '')
        pre_latest = spec.count('-') == 2 and '-0.' in spec and rnd.random() < 0.3
        if pre_latest:      # the vX.Y.Z-0.<ts>-<hash> form against a prerelease of its own base (prereleases are not ignored here)
            latest = 'v%d.%d.%d' % base + rnd.choice(['-beta', '-0', '-rc.1', '-0.1'])
        others = ['v%d.%d.%d' % (max(0, lat[0] - 1), 0, rnd.randrange(3))] if rnd.random() < 0.5 and lat[0] > 0 else []
        fills, marked = rnd_fills(rnd, [latest] + others, None, mark_p=0.0)
        send.append({'eco': 'go', 'name': 'example.com/m', 'spec': spec, 'ignore_pre': not pre_latest, 'fills': fills})
        meta.append({'kind': 'gopseudo', 'marked': False})
    cases, err = C.run_harness('verdict', 0, 0, stdin='\n'.join(json.dumps(x) for x in send) + '\n', timeout=3000)
    if err:
        rep.broke('harness verdict', err)
    cases = cases or []
    corr_terms, corr_idx, npm_terms, npm_idx, cr_terms, cr_idx = [], [], [], [], [], []
    cells = {}
    for i, (c, m) in enumerate(zip(cases, meta)):
        inp, o = c['in'], c['out']
        if o == 'panic':
            rep.violation(f'generate_diagnostics panicked for spec {inp["spec"]!r} ({inp["eco"]})', {'input': inp})
            continue
        if len(o['diags']) > 1:
            rep.violation('more than one diagnostic for one dependency', {'input': inp, 'impl': o})
            continue
        d = o['diags'][0] if o['diags'] else None
        cell = 'none' if d is None else d[1].split(':')[0].split(' ')[0]
        cells[cell] = cells.get(cell, 0) + 1
        # messages quote the spec as written and the cached latest verbatim
        if d is not None:
            lat = o['latest']
            ok = d in ([2, f'Update available: {inp["spec"]} -> {lat}'], [1, f'Version {inp["spec"]} not found in registry'], [1, f'Invalid version format: {inp["spec"]}'])
            if not ok:
                rep.violation('diagnostic message does not quote the checked spec / cached latest verbatim', {'input': inp, 'impl': o})
        if m.get('bad_target') and o['latest'] is not None:
            # the tag map that is in force is the last non-empty one stored: the planted one unless a later fill replaced it
            last = [f for f in inp['fills'] if f['op'] == 'tags' and f['m']]
            if last and dict(map(tuple, last[-1]['m'])).get(inp['spec']) == m['bad_target'] and d != [1, f'Invalid version format: {inp["spec"]}']:
                rep.violation(f'{inp["eco"]}: the spec {inp["spec"]!r} is a cached dist-tag pointing at {m["bad_target"]!r} (not a version): '
                              f"'Invalid version format' is due, published {o['diags']}", {'input': inp, 'impl': o})
        if m['kind'] == 'gopseudo' and o['latest'] is not None:
            # a pseudo-version is always accepted as existing; by SemVer precedence it sorts below its base version, so
            # 'Update available' is due exactly when it is below the cached latest
            from .c07 import sv_parse, sv_key
            S, L = sv_parse(inp['spec'].split('+')[0]), sv_parse(o['latest'].split('+')[0])
            if S and L:
                want = [2, f'Update available: {inp["spec"]} -> {o["latest"]}'] if sv_key(S) < sv_key(L) else None
                if d != want:
                    rep.violation(f'go: pseudo-version {inp["spec"]!r} against latest {o["latest"]!r}: published {o["diags"]}, the decision table gives {want}', {'input': inp, 'impl': o})
        key = f'({C.g_bytes(REGSTR[inp["eco"]])}, {C.g_bytes(inp["name"])})'
        if m['marked']:
            # open finding: a package marked nonexistent that still has versions keeps getting verdicts
            if d is not None:
                rep.known('C01-marked-nonexistent-still-judged', {'input': inp, 'impl': d})
        if inp['eco'] in ECO:
            corr_terms.append(C.g_pair(str(ECO[inp['eco']]), key, C.g_bytes(inp['spec']), C.g_bool(inp['ignore_pre']), g_fills(key, inp['fills']),
                                       C.g_opt(o['latest'], C.g_bytes), g_diag(d)))
            corr_idx.append(i)
        if m['kind'] == 'ast' and not m['marked']:
            stored = []
            for f in inp['fills']:
                if f['op'] == 'store':
                    stored += f['vs']
            t = C.g_pair(m['g'], C.g_bytes(inp['spec']), C.g_bool(m['unresolved']), '[' + '; '.join(C.g_bytes(v) for v in stored) + ']',
                         C.g_opt(o['latest'], C.g_bytes), g_diag(d), C.g_bytes(m['resolved']))
            if ECO[inp['eco']] == 0:
                npm_terms.append(t); npm_idx.append(i)
            else:
                cr_terms.append(t); cr_idx.append(i)
    bad, errs = C.coq_eval_verdicts(PID, 'corr', IMPORTS, 'corr_case', corr_terms, 'verdict_corr')
    for e in errs:
        rep.broke('verdict model evaluation failed', e)
    for k in sorted(bad)[:3]:
        rep.broke('correspondence Model.Checker (over the cache model) vs generate_diagnostics', cases[corr_idx[k]])
    for name, terms, idx, fn, ty in (('npm', npm_terms, npm_idx, 'npm_verdict_oracle', 'npm_oracle_case'), ('crates', cr_terms, cr_idx, 'crates_verdict_oracle', 'crates_oracle_case')):
        badv, errs = C.coq_eval_verdicts(PID, 'oracle_' + name, IMPORTS, ty, terms, fn)
        for e in errs:
            rep.broke(f'{name} verdict oracle evaluation failed', e)
        counts = {}
        for k, v in sorted(badv.items()):
            counts[v] = counts.get(v, 0) + 1
            ci = cases[idx[k]]
            if v == 1:
                rep.violation(f'{name}: published diagnostic differs from the decision table: spec {ci["in"]["spec"]!r}, cached latest {ci["out"]["latest"]!r}, '
                              f'published {ci["out"]["diags"]}', {'input': ci['in'], 'impl': ci['out']})
            elif v >= 10:
                rep.known(KNOWN_IDS.get(v, f'class{v}'), {'input': ci['in'], 'impl': ci['out']})
        rep.cov['streams']['oracle_' + name] = {'cases': len(terms), 'by_code': counts}
    rep.cov['streams']['verdict'] = {'cases': len(cases), 'cells': cells, 'correspondence_cases': len(corr_terms), 'disagreements': len(bad)}
    # pyproject.toml: the verdict path with the PEP 440 matcher.  Facts come from the matcher's own answers (stream 'pypi'
    # of C02: version_exists / compare_to_latest per version), the expected diagnostic is the decision table over them -
    # this ties generate_diagnostics to the PyPI matcher (registry type -> matcher wiring, message texts) like the Coq
    # theorem C01_table_pypi does for the model
    from . import c02 as C2
    prnd = random.Random(seed * 31 + 7)
    psend = []
    for _ in range(120 if quick else 3000):
        spec = C2.rnd_pyspec(prnd)
        psend.append({'spec': spec, 'base': C2.pypi_base(spec), 'versions': prnd.sample(C2.PY_VERS, prnd.choice([0, 1, 3, 8])),
                      # the registry's own latest (info.version), now and then something that is not a PEP 440 version
                      'tag': prnd.choice(['2004d', 'x', '1.0-final-', '']) if prnd.random() < 0.12 else None})
    # fixed corpus: the witness of C01-pypi-empty-spec-hides-malformed-latest and its non-empty neighbour
    psend += [{'spec': '', 'base': C2.pypi_base(''), 'versions': ['1.0'], 'tag': '2004d'}, {'spec': '>=1.0', 'base': C2.pypi_base('>=1.0'), 'versions': ['1.0'], 'tag': '2004d'}]
    pobs, perr = C2.harness_cases('pypi', psend)
    pver, perr2 = C.run_harness('verdict', 0, 0, stdin='\n'.join(json.dumps({'eco': 'pypi', 'name': 'requests', 'spec': x['spec'], 'ignore_pre': False,
                                'fills': ([{'op': 'store', 'vs': x['versions']}] if x['versions'] else []) +
                                         ([{'op': 'tags', 'm': [['latest', x['tag']]]}] if x['tag'] is not None and x['versions'] else [])}) for x in psend) + '\n', timeout=3000)
    if perr or perr2:
        rep.broke('harness pypi / verdict (pyproject)', perr or perr2)
    npy = 0
    for x, ob, vd in zip(psend, pobs or [], pver or []):
        if ob['out'] == 'panic' or vd['out'] == 'panic':
            continue              # C06's business (pep440 / pep508 panics are listed there)
        L = vd['out']['latest']
        diags = [[dd[0], dd[1]] for dd in vd['out']['diags']]
        by_v = {o_['v']: o_ for o_ in ob['out']['obs']}
        if L is None:
            want = []
        elif x['tag'] is not None and L == x['tag']:
            # the cached latest is not a version: 'Invalid version format' is due whatever the spec is
            want = [[1, 'Invalid version format: ' + x['spec']]]
            if x['spec'] == '' and diags == []:
                rep.known('C01-pypi-empty-spec-hides-malformed-latest', {'input': x, 'impl': vd['out']})
                npy += 1
                continue
        elif L not in by_v:
            continue
        else:
            cmpL = by_v[L]['compare']
            if x['spec'] == '':
                some = len(x['versions']) > 0
            else:
                some = any(o_['exists'] for o_ in ob['out']['obs'])
            if cmpL == 3:
                want = [[1, 'Invalid version format: ' + x['spec']]]
            elif not some:
                want = [[1, f'Version {x["spec"]} not found in registry']]
            elif cmpL == 1:
                want = [[2, f'Update available: {x["spec"]} -> {L}']]
            else:
                want = []
        npy += 1
        if x['spec'].lower() in KNOWN_TAGS:
            want = []
        if diags != want:
            rep.violation(f'pyproject: spec {x["spec"]!r}, cached {x["versions"]}, latest {L!r}: published {diags}, the decision table over the PEP 440 matcher gives {want}',
                          {'input': x, 'impl': vd['out'], 'matcher': ob['out']})
    rep.cov['streams']['pypi_verdict'] = {'cases': npy}
    rep.cov.update({'evaluations': len(cases), 'distinct_nontrivial': len({(c['in']['eco'], c['in']['spec'], json.dumps(c['out'])) for c in cases if c['out'] != 'panic' and c['out']['diags']}),
                    'rule': 'one dependency against a real Cache filled in random batch order (duplicates, tag maps replaced/emptied, optional nonexistent mark): specs from the npm / Cargo '
                            'range syntax, dist-tag names (cached, well-known uncached), junk and Go / GitHub Actions refs; non-trivial = distinct (ecosystem, spec, published diagnostic) with a diagnostic',
                    'traces_validated_against_impl': len(corr_terms) - len(bad)})
    rep.cov['samples'] = [{'in': c['in'], 'out': c['out']} for c in cases if c['out'] != 'panic' and c['out']['diags']][:4]
    rep.assumptions = ['the matcher contract (Invalid iff a side is malformed; malformed never exists) is proved for npm/pnpm/JSR, Cargo and GitHub Actions; Go and PyPI are covered by the correspondence stream and C02',
                       'ecosystem-level facts of the oracle are the reference semantics of C02 (both readings of the prerelease clause accepted; a spec anchored exactly at an excluded L may go either way)']
    if tier == 'thorough' and proofs_ok:
        C.coqchk(rep, ['VL.Props.C01'])
    return rep.finish()


LAT_NPM = R.lattice_npm_single()
LAT_CRATES = R.lattice_crates_single()
