"""C15 - a registry reply is turned into exactly the versions and tags it advertises."""
import json
import random
from . import common as C

PID = 'C15'
PINS = C.load_pins('C15')
PROOF_FILES = ['Proofs/RegistryProofs.v', 'Proofs/RegistryPins.v', 'Props/C15.v']
IMPORTS = 'From Coq Require Import ZArith.\nFrom VL Require Import Lib.Bytes Model.Config Model.Registry Run.RegistryOracle Run.RegistryRun.\n'
ORACLE_IMPORTS = 'From Coq Require Import ZArith.\nFrom VL Require Import Lib.Bytes Model.Config Lib.Http Run.RegistryOracle.\n'
ADAPTERS = ['npm', 'crates', 'go', 'github', 'jsr', 'pypi', 'github_tags']


class Obj:
    """a JSON object with its members in document order (duplicates allowed)"""
    def __init__(self, pairs):
        self.pairs = list(pairs)


def dumps(v):
    if isinstance(v, Obj):
        return '{' + ','.join(json.dumps(k, ensure_ascii=False) + ':' + dumps(x) for k, x in v.pairs) + '}'
    if isinstance(v, list):
        return '[' + ','.join(dumps(x) for x in v) + ']'
    return json.dumps(v, ensure_ascii=False)


def g_json(v):
    if v is None:
        return 'JNull'
    if isinstance(v, bool):
        return f'(JBool {C.g_bool(v)})'
    if isinstance(v, int):
        return f'(JInt ({v})%Z)'
    if isinstance(v, float):
        return 'JFloat'
    if isinstance(v, str):
        return f'(JStr {C.g_bytes(v)})'
    if isinstance(v, list):
        return '(JArr [' + '; '.join(g_json(x) for x in v) + '])'
    return '(JObj [' + '; '.join('(' + C.g_bytes(k) + ', ' + g_json(x) + ')' for k, x in v.pairs) + '])'


# ---------------------------------------------------------------------------- generators
VERSIONS = ['1.0.0', '1.0.1', '1.2.3', '2.0.0', '2.0.0-beta.1', '0.1.0', '10.20.30', '1.0.0+build', '3.0.0-rc.1', '1.0', '1', 'v1.0.0', 'latest',
            '', 'not a version', '1.0.0-α', '99999999999999999999.0.0', '1.0.0-rc.1', '0.0.1', '4.17.21', '2024.1', '1!2.0', '2.0.0.post1']
GO_VERSIONS = ['v1.0.0', 'v1.0.1', 'v0.9.0', 'v2.0.0+incompatible', 'v1.2.3-beta.1', 'v0.0.0-20210101000000-abcdefabcdef', 'v1.10.0', 'v1.9.0', 'foo', 'v1', 'v1.0',
               '1.0.0', 'v1.0.0-rc.1', 'v01.0.0', 'v1.0.0+b', 'v1.0.0+a']
TS = ['2020-01-01T00:00:00Z', '2020-01-01T00:00:00.000Z', '2021-06-15T12:30:45.123456Z', '2019-12-31T23:59:59+09:00', '2020-01-01T01:00:00+01:00',
      '2020-01-01T00:00:00.5Z', '2022-02-30T00:00:00Z', '', 'yesterday', '2020-01-01 00:00:00Z', '2020-01-01t00:00:00z', '2023-03-01T10:00:00-05:00',
      '2018-05-05T05:05:05Z', '2020-01-01T00:00:00', '1970-01-01T00:00:00Z', '2020-01-01T00:00:60Z']
NAMES = {
    'npm': ['lodash', 'left-pad', '@types/node', '@babel/core', '@scope/pkg.name', 'a', 'jquery.ui', '@a/b', 'under_score', 'x~y', '@org/with-dash'],
    'crates': ['serde', 'tokio-util', 'rand_core', 'a', 'x1'],
    'go': ['golang.org/x/text', 'github.com/Azure/azure-sdk-for-go', 'github.com/BurntSushi/toml', 'gopkg.in/yaml.v3', 'example.com/UPPER/Case', 'a.b/c', 'github.com/a/b/v2', 'k8s.io/API'],
    'github': ['actions/checkout', 'actions/setup-node', 'Owner/Repo.name', 'a/b', 'docker/build-push-action'],
    'jsr': ['@std/path', '@luca/flag', '@a/b-c'],
    'pypi': ['requests', 'Django', 'typing_extensions', 'zope.interface', 'a-b'],
}
NAMES['github_tags'] = NAMES['github']
STATUSES = [200] * 45 + [404, 404, 410, 410, 429, 429, 201, 202, 204, 206, 299, 300, 301, 302, 304, 307, 400, 401, 403, 405, 408, 418, 451, 500, 502, 503, 504, 599]


def pick_versions(rnd, pool):
    n = rnd.choice([0, 1, 1, 2, 3, 3, 4, 6, 9])
    return rnd.sample(pool, min(n, len(pool)))


def rnd_ts(rnd):
    return rnd.choice(TS)


def junk(rnd):
    return rnd.choice([None, True, 0, 1.5, 'x', [], [1], Obj([]), Obj([('a', 1)])])


def gen_body(rnd, adapter, wellformed):
    """returns (json value or None for text bodies, text, pages) ; pages only for github"""
    pool = GO_VERSIONS if adapter == 'go' else (['v' + v for v in VERSIONS[:12]] + VERSIONS if adapter.startswith('github') else VERSIONS)
    vs = pick_versions(rnd, pool)
    extra = lambda: [(rnd.choice(['name', '_id', 'description', 'maintainers', 'extra']), junk(rnd))] if rnd.random() < 0.4 else []
    bad = (lambda p: (not wellformed) and rnd.random() < p)
    if adapter == 'npm':
        vers = Obj([(v, rnd.choice([Obj([]), Obj([('name', 'x'), ('version', v)]), None, 1]) if bad(0.2) or rnd.random() < 0.2 else Obj([('version', v)])) for v in vs])
        if bad(0.15) and vs:
            vers.pairs.append((vs[0], Obj([])))
        members = [('versions', junk(rnd) if bad(0.12) else vers)]
        if rnd.random() < 0.8:
            tags = Obj([(t, (rnd.choice(vs) if vs and rnd.random() < 0.8 else rnd.choice(VERSIONS)) if not bad(0.15) else junk(rnd)) for t in rnd.sample(['latest', 'next', 'beta', 'canary', 'LATEST', ''], rnd.randrange(0, 4))])
            members.append(('dist-tags', junk(rnd) if bad(0.1) else tags))
        if rnd.random() < 0.8:
            keys = [v for v in vs if rnd.random() < 0.8] + (['created', 'modified'] if rnd.random() < 0.5 else [])
            members.append(('time', junk(rnd) if bad(0.1) else Obj([(k, rnd_ts(rnd) if not bad(0.1) else junk(rnd)) for k in keys])))
        if bad(0.15):
            members = [m for m in members if m[0] != rnd.choice(['versions', 'dist-tags', 'time'])]
        if bad(0.1):
            members.append((rnd.choice(['versions', 'time', 'dist-tags']), Obj([])))
        rnd.shuffle(members)
        j = Obj(members + extra())
        if bad(0.06):
            j = [m[1] for m in members]
    elif adapter == 'crates':
        def cv(v):
            m = [('num', v if not bad(0.08) else junk(rnd)), ('yanked', (rnd.random() < 0.3) if not bad(0.08) else junk(rnd)), ('created_at', rnd_ts(rnd) if not bad(0.08) else junk(rnd))]
            if bad(0.1):
                m.pop(rnd.randrange(3))
            if bad(0.05):
                return [x[1] for x in m]
            rnd.shuffle(m)
            return Obj(m + extra())
        lst = [cv(v) for v in vs] + ([cv(vs[0])] if vs and rnd.random() < 0.1 else [])
        members = [('versions', lst if not bad(0.12) else junk(rnd))] + ([('crate', Obj([('id', 'x')]))] if rnd.random() < 0.6 else [])
        if bad(0.1):
            members = members[1:]
        j = Obj(members + extra())
    elif adapter == 'github':
        def rel(v):
            m = [('tag_name', v if not bad(0.1) else junk(rnd))]
            k = rnd.random()
            if k < 0.7:
                m.append(('published_at', rnd_ts(rnd) if not bad(0.1) else junk(rnd)))
            elif k < 0.85:
                m.append(('published_at', None))
            if bad(0.08):
                m = m[1:]
            rnd.shuffle(m)
            return Obj(m + extra())
        j = [rel(v) for v in vs] if not bad(0.12) else junk(rnd)
    elif adapter == 'github_tags':
        def tag(v):
            m = [('name', v if not bad(0.1) else junk(rnd)), ('commit', Obj([('sha', '%040x' % rnd.getrandbits(160)), ('url', 'u')]) if not bad(0.12) else junk(rnd))]
            if bad(0.08):
                m.pop(rnd.randrange(2))
            rnd.shuffle(m)
            return Obj(m + extra())
        lst = [tag(v) for v in vs]
        if vs and rnd.random() < 0.3:      # the same tag name twice, different commits
            lst.append(tag(rnd.choice(vs)))
        j = lst if not bad(0.12) else junk(rnd)
    elif adapter == 'jsr':
        def meta(v):
            m = []
            k = rnd.random()
            if k < 0.7:
                m.append(('createdAt', rnd_ts(rnd) if not bad(0.1) else junk(rnd)))
            elif k < 0.8:
                m.append(('createdAt', None))
            k = rnd.random()
            if k < 0.5:
                m.append(('yanked', (rnd.random() < 0.4) if not bad(0.1) else junk(rnd)))
            rnd.shuffle(m)
            if bad(0.05):
                return [x[1] for x in m]
            return Obj(m + extra())
        vers = Obj([(v, meta(v)) for v in vs])
        if bad(0.12) and vs:
            vers.pairs.append((vs[0], meta(vs[0])))
        members = [('versions', vers if not bad(0.12) else junk(rnd))]
        k = rnd.random()
        if k < 0.6:
            members.append(('latest', rnd.choice(vs) if vs else None))
        elif k < 0.7:
            members.append(('latest', junk(rnd) if bad(0.5) else None))
        members.append(('scope', 'std'))
        if bad(0.1):
            members = members[1:]
        rnd.shuffle(members)
        j = Obj(members + extra())
    elif adapter == 'pypi':
        def files():
            return [Obj([('filename', 'x.whl')]) if not bad(0.1) else junk(rnd) for _ in range(rnd.randrange(0, 3))] if not bad(0.08) else junk(rnd)
        rel = Obj([(v, files()) for v in vs])
        info = Obj([('version', (rnd.choice(vs) if vs else '0') if not bad(0.1) else junk(rnd)), ('name', 'x')]) if not bad(0.1) else junk(rnd)
        members = [('info', info), ('releases', rel if not bad(0.1) else junk(rnd)), ('urls', [])]
        if bad(0.12):
            members.pop(rnd.randrange(2))
        rnd.shuffle(members)
        j = Obj(members + extra())
    else:  # go: text
        sep = rnd.choice(['\n', '\n', '\r\n'])
        lines = list(vs)
        if rnd.random() < 0.25:
            # a long listing as busy modules have it: 25-80 lines in no particular order, a few of them not versions
            lines = ['v%d.%d.%d' % (rnd.randrange(3), rnd.randrange(30), rnd.randrange(12)) for _ in range(rnd.choice([25, 40, 80]))]
            for _ in range(rnd.randrange(0, 5)):
                lines.insert(rnd.randrange(len(lines) + 1), rnd.choice(['v1.5', 'foo', 'v2', 'v0.0.0-20210101000000-abcdefabcdef', 'v1.2.3-rc.1']))
        if rnd.random() < 0.3:
            lines.insert(rnd.randrange(len(lines) + 1), '')
        text = sep.join(lines) + (sep if rnd.random() < 0.7 else '')
        if not wellformed and rnd.random() < 0.4:
            text += rnd.choice(['\r', 'v9.9.9\r', '\rv1.0.0\n', ' v1.0.0 \n', '\n\n\r\n'])
        return 'RAW', text
    text = dumps(j)
    if not wellformed and rnd.random() < 0.15:
        if rnd.random() < 0.15:
            return None, 'null'
        text = rnd.choice([text[:max(1, len(text) // 2)] if len(text) > 2 else '{', '', '<html>rate limit</html>', text + ' x', '[' + text, text + '}', '{"versions":'])
        return 'RAW', text
    return j, text


def ts_strings(v, acc):
    if isinstance(v, Obj):
        for _, x in v.pairs:
            ts_strings(x, acc)
    elif isinstance(v, list):
        for x in v:
            ts_strings(x, acc)
    elif isinstance(v, str):
        acc.add(v)


def gen_case(rnd):
    adapter = rnd.choice(ADAPTERS)
    name = rnd.choice(NAMES[adapter])
    wellformed = rnd.random() < 0.6
    status = rnd.choice(STATUSES) if rnd.random() < 0.8 else rnd.randrange(200, 600)
    if rnd.random() < 0.03:
        return {'adapter': adapter, 'name': name, 'tag': 'v1.0.0', 'down': True, 'pages': [], 'ts': []}, None, []
    pages_json = []
    j, text = gen_body(rnd, adapter, wellformed)
    if adapter == 'github' and rnd.random() < 0.3:
        # a full page (GitHub sends 30 releases by default, up to 100): tags whose text order differs from their dates
        # (two-digit components), a few of them without a usable date
        n = rnd.choice([25, 30, 30, 60, 100])
        rels = []
        scattered = rnd.random() < 0.5      # maintenance lines: publish dates unrelated to the version order, more drafts
        for i in range(n):
            tag = 'v%d.%d.%d' % (i // 12 + 1, (i % 12) + (5 if rnd.random() < 0.3 else 0), rnd.choice([0, 0, 1, 10]))
            k = rnd.random()
            m = [('tag_name', tag)]
            if k < (0.25 if scattered else 0.1):
                m.append(('published_at', None))
            elif k < (0.3 if scattered else 0.15):
                m.append(('published_at', 'not a date'))
            elif scattered:
                m.append(('published_at', rnd_ts(rnd)))
            elif k < 0.95:
                m.append(('published_at', '20%02d-%02d-%02dT%02d:00:00Z' % (10 + i // 12, 1 + i % 12, 1 + rnd.randrange(28), rnd.randrange(24))))
            rels.append(Obj(m))
        rnd.shuffle(rels) if rnd.random() < 0.5 else None
        j, text = rels, dumps(rels)
    if status in (204, 205, 304):       # these replies carry no body by protocol (the client discards one)
        j, text = 'RAW', ''
    headers = []
    if status == 429 or rnd.random() < 0.05:
        headers.append(['retry-after', rnd.choice(['30', '+5', '0', '007', 'soon', '-1', '18446744073709551615', '18446744073709551616', '1.5', ''])])
    pages = [{'status': status, 'headers': headers, 'body': text}]
    if adapter == 'github' and status == 200 and isinstance(j, list) and wellformed and rnd.random() < 0.35:
        # a chain of pages
        n = rnd.choice([2, 2, 3])
        chain = [j]
        for k in range(2, n + 1):
            jk, tk = gen_body(rnd, 'github', True)
            chain.append(jk)
            pages.append({'status': 200, 'headers': [], 'body': tk})
        for k in range(n - 1):
            pages[k]['headers'] = pages[k]['headers'] + [['Link', '<{base}/repos/%s/releases?page=%d>; rel="next", <{base}/repos/%s/releases?page=%d>; rel="last"' % (name, k + 2, name, n)]]
        pages_json = chain
    elif adapter == 'github' and not (isinstance(j, str) and j == 'RAW'):
        pages_json = [j]
    acc = set()
    if not (isinstance(j, str) and j == 'RAW'):
        ts_strings(j, acc)
        for pj in pages_json:
            ts_strings(pj, acc)
    tag = 'v1.0.0'
    if adapter == 'github_tags':
        names = [dict(t.pairs).get('name') for t in j if isinstance(t, Obj)] if isinstance(j, list) else []
        names = [n for n in names if isinstance(n, str)]
        tag = rnd.choice(names) if names and rnd.random() < 0.7 else rnd.choice(['v1.0.0', 'v1', 'v1.0', 'v9.9.9', ''])
    script = {'adapter': adapter, 'name': name, 'tag': tag, 'down': False, 'pages': pages, 'ts': sorted(acc)}
    return script, (j, text, status, headers), pages_json


CORPUS = [
    # minimised past disagreements / hand-picked boundary cases (run first)
    ('npm', '@types/node', 200, Obj([('versions', Obj([('1.0.0', Obj([])), ('1.0.0', None)])), ('time', Obj([('1.0.0', 'x')]))])),
    ('npm', 'lodash', 200, [Obj([('1.0.0', 1)])]),
    ('npm', 'lodash', 200, [Obj([]), Obj([('latest', '1')]), Obj([]), 1]),
    ('npm', 'lodash', 200, Obj([('versions', Obj([])), ('versions', Obj([]))])),
    ('npm', 'lodash', 410, Obj([('versions', Obj([]))])),
    ('crates', 'serde', 200, Obj([('versions', [['1.0.0', False, 'x'], Obj([('num', '2.0.0'), ('yanked', True), ('created_at', '')])])])),
    ('crates', 'serde', 200, Obj([('versions', [Obj([('num', '1.0.0'), ('yanked', False)])])])),
    ('jsr', '@std/path', 200, Obj([('versions', Obj([('1.0.0', Obj([])), ('1.0.0', Obj([('yanked', True)])), ('2.0.0', [None])]))])),
    ('jsr', '@std/path', 200, Obj([('versions', Obj([('0.9.0', Obj([])), ('1.0.0', Obj([('createdAt', 'garbled')])), ('1.1.0', Obj([('createdAt', '2020-01-01T00:00:00Z')]))]))])),
    ('jsr', '@std/path', 200, [None, Obj([])]),
    ('jsr', '@std/path', 200, [Obj([])]),
    ('pypi', 'requests', 200, Obj([('info', Obj([('version', '2')])), ('releases', Obj([('1', [Obj([])]), ('2', [[]]), ('3', [])]))])),
    ('pypi', 'requests', 200, Obj([('info', ['2']), ('releases', Obj([('1', [[1]])]))])),
    ('github', 'a/b', 200, [Obj([('tag_name', 'v1'), ('published_at', None)]), ['v2']]),
    ('github', 'a/b', 200, [['v2', None, 1]]),
    ('github', 'a/b', 429, []),
    ('go', 'github.com/Azure/Foo', 410, None),
    ('go', 'github.com/Azure/Foo', 404, None),
    ('pypi', 'x', 410, Obj([])),
    ('github_tags', 'a/b', 200, [Obj([('name', 'v4.1'), ('commit', Obj([('sha', 'aaa')]))]), Obj([('name', 'v4'), ('commit', Obj([('sha', 'bbb')]))]), Obj([('name', 'v4'), ('commit', Obj([('sha', 'ccc')]))])]),
]


def corpus_cases():
    out = []
    for adapter, name, status, j in CORPUS:
        if adapter == 'go':
            text, jj = 'v1.0.0\r\nv0.9.0\n\nfoo\nv1.0.0-rc.1', 'RAW'
        else:
            text, jj = dumps(j), j
        acc = set()
        if adapter != 'go':
            ts_strings(jj, acc)
        script = {'adapter': adapter, 'name': name, 'tag': 'v4', 'down': False, 'pages': [{'status': status, 'headers': [], 'body': text}], 'ts': sorted(acc)}
        out.append((script, (jj, text, status, []), [jj] if adapter == 'github' else []))
    return out


# ---------------------------------------------------------------------------- Coq terms
def impl_term(res):
    if res == 'not_found':
        return 'INotFound'
    if isinstance(res, dict) and 'rate_limited' in res:
        return f'(IRate {C.g_opt(res["rate_limited"])})'
    if isinstance(res, dict) and 'transient' in res:
        return 'ITransient'
    if isinstance(res, dict) and 'ok' in res:
        vs = C.g_list([C.g_bytes(v) for v in res['ok']['versions']])
        tg = C.g_list([C.g_pair(C.g_bytes(k), C.g_bytes(v)) for k, v in res['ok']['tags']])
        return f'(IOk {vs} {tg})'
    if isinstance(res, dict) and 'sha' in res:
        return f'(ISha {C.g_bytes(res["sha"])})'
    return 'IOther'


def case_term(script, meta, pages_json, out):
    a = ADAPTERS.index(script['adapter'])
    if meta is None:
        reply = 'None'
    else:
        j, text, status, headers = meta
        ra = [h[1] for h in headers if h[0].lower() == 'retry-after']
        body = f'(BRaw {C.g_bytes(text)})' if isinstance(j, str) and j == 'RAW' else f'(BJson {g_json(j)})'
        reply = f'(Some (mkReply {status} {C.g_opt(ra[0] if ra else None, C.g_bytes)} {body}))'
    tape = C.g_list([C.g_pair(C.g_bytes(s), C.g_opt(n, lambda x: f'({x})%Z')) for s, n in out['ts']])
    reqs = C.g_list([C.g_bytes(r['target']) for r in out['requests']])
    pj = C.g_list([g_json(p) for p in pages_json])
    return f'(mkCase {a} {C.g_bytes(script["name"])} {C.g_bytes(script["tag"])} {reply} {pj} {tape} {impl_term(out["result"])} {reqs})'


ORACLE_MSG = {7: 'the reply spans several pages and only the first was read', 10: 'no reply at all is not reported as a transient failure',
              11: 'the request does not name the package in the registry\'s encoding', 12: 'a definitive not-found status is not reported as NotFound',
              13: 'a non-2xx status that is not a definitive not-found is not reported as a transient failure', 14: 'the commit returned is not the one of exactly the named tag',
              15: 'a malformed 2xx reply is reported as non-existence / rate limit', 16: 'the tags differ from the ones the reply declares',
              17: 'the version set differs from the advertised (non-yanked) versions', 18: 'a well-formed 2xx reply is not accepted'}


def run(tier, seed):
    rep = C.Report(PID, tier, seed, 'proof')
    proofs_ok = C.standard_proof_phase(rep, ['registries'], ['theories/Props/C15.vo', 'theories/Run/RegistryRun.vo'], 'Props.C15', PINS['theorems'], PROOF_FILES, ['theories/Run/RegistryOracle.vo'], imports=PINS['imports'])
    hok, hlog = C.build_harness()
    if not hok:
        rep.broke('harness does not build against /repo', hlog[-1500:])
        return rep.finish()
    rnd = random.Random(seed)
    n = 1500 if tier == 'quick' else 40000
    gen = corpus_cases() + [gen_case(rnd) for _ in range(n)]
    outs, err = C.run_harness('registry', 0, 0, stdin='\n'.join(json.dumps(g[0]) for g in gen) + '\n', timeout=3000)
    if err:
        rep.broke('harness stream registry failed', err)
    outs = outs or []
    terms, kept = [], []
    for g, o in zip(gen, outs):
        res = o['out']['result']
        if res in ('panic', 'hang'):
            rep.violation(f'adapter {g[0]["adapter"]} {res}s on a reply', {'script': g[0], 'result': res})
            continue
        terms.append(case_term(g[0], g[1], g[2], o['out']))
        kept.append((g, o))
    dist = {}
    for g, o in kept:
        r = o['out']['result']
        k = g[0]['adapter'] + ':' + (r if isinstance(r, str) else next(iter(r)))
        dist[k] = dist.get(k, 0) + 1
    # property oracle (reference reading of the reply, Spec only) on the implementation's answers
    bad, errs = C.coq_eval_verdicts(PID, 'oracle', ORACLE_IMPORTS, 'reg_case', terms, 'reg_oracle')
    for e in errs:
        rep.broke('oracle evaluation failed', e)
    npaged = 0
    for i in sorted(bad):
        g, o = kept[i]
        if bad[i] == 7:
            npaged += 1
            rep.known('C15-github-first-page-only', {'script': g[0], 'result': o['out']['result']})
            continue
        if len([1 for v in rep.violations]) < 5:
            rep.violation(f'{g[0]["adapter"]} adapter: {ORACLE_MSG.get(bad[i], bad[i])} (package {g[0]["name"]!r}, status {g[0]["pages"][0]["status"] if g[0]["pages"] else None})',
                          {'script': g[0], 'impl': o['out'], 'oracle_code': bad[i], 'replay': 'echo <script> | vlsp-harness registry'})
    # correspondence model vs implementation
    if proofs_ok:
        bad2, errs2 = C.coq_eval_verdicts(PID, 'corr', IMPORTS, 'reg_case', terms, 'reg_corr')
        for e in errs2:
            rep.broke('model evaluation failed', e)
        if bad2:
            i = sorted(bad2)[0]
            rep.broke('correspondence Model.Registry vs the adapters', {'first_disagreement': {'script': kept[i][0][0], 'impl': kept[i][1]['out'], 'code': bad2[i]}, 'count': len(bad2)})
        rep.cov['traces_validated_against_impl'] = len(terms) - len(bad2)
    # the order of versions is the sort the model describes (HashMap-fed adapters: checked against the key tape here)
    nsorted = 0
    for g, o in kept:
        r = o['out']['result']
        if g[0]['adapter'] in ('npm', 'jsr') and isinstance(r, dict) and 'ok' in r and g[1] and isinstance(g[1][0], Obj):
            tape = {s: (int(n) if n is not None else None) for s, n in o['out']['ts']}
            j = g[1][0]
            top = {}
            for k, v in j.pairs:
                top[k] = v
            if g[0]['adapter'] == 'npm':
                tm = {}
                if isinstance(top.get('time'), Obj):
                    for k, v in top['time'].pairs:
                        tm[k] = v
                key = lambda v: tape.get(tm.get(v)) if isinstance(tm.get(v), str) else None
            else:
                vm = {}
                if isinstance(top.get('versions'), Obj):
                    for k, v in top['versions'].pairs:
                        vm[k] = v
                def key(v):
                    m = vm.get(v)
                    c = dict(m.pairs).get('createdAt') if isinstance(m, Obj) else (m[0] if isinstance(m, list) and m else None)
                    return tape.get(c) if isinstance(c, str) else None
            ks = [key(v) for v in r['ok']['versions']]
            norm = [(-1, 0) if k is None else (0, k) for k in ks]
            nsorted += 1
            if norm != sorted(norm):
                rep.broke('version order of a map-fed adapter is not the stable sort by timestamp', {'script': g[0], 'versions': r['ok']['versions'], 'keys': ks})
    rep.cov.update({'evaluations': len(terms), 'distinct_nontrivial': len({json.dumps(g[0]['pages']) for g, o in kept if isinstance(o['out']['result'], dict) and 'ok' in o['out']['result']}),
                    'rule': 'scripts = adapter x legal package name x status (weighted to 200/404/410/429 plus the 2xx-5xx range) x body from a per-protocol generator '
                            '(60% well-formed: version pools incl. odd strings, timestamps valid/tied/garbled/missing/null, yanked flags, tags, extra members, shuffled member order; '
                            '40% damaged: wrong types, missing/duplicate members, positional arrays, truncated or non-JSON text), GitHub page chains with Link headers, dead port; '
                            'non-trivial = distinct bodies accepted by the adapter'})
    rep.cov['streams']['registry'] = {'cases': len(terms), 'outcomes': dict(sorted(dist.items())), 'paged_github_replies': npaged, 'order_checked': nsorted}
    rep.cov['samples'] = [kept[i][0][0] for i in (0, len(CORPUS), len(CORPUS) + 1) if i < len(kept)]
    rep.assumptions = ['HTTP/TLS (reqwest, hyper) and JSON text -> value (serde_json) are outside the model; the model starts at the status line, the retry-after header and the JSON value with members in document order',
                       'chrono::DateTime::parse_from_rfc3339 is an oracle [ts] in the theorems (they hold for every function); its real answers for the strings of each case instantiate it in the correspondence run',
                       '1xx statuses are not generated (hyper treats them as interim responses); redirects carry no Location header',
                       'package names are drawn from the names legal in each manifest format; reqwest URL normalisation of other characters is outside the model']
    if tier == 'thorough' and proofs_ok:
        C.coqchk(rep, ['VL.Props.C15'])
    return rep.finish()
