"""C17 - a hash-pinned action is bumped to the commit its new tag really points to."""
import collections
import json
from . import common as C
from . import c07
from . import c15

PID = 'C17'
PINS = C.load_pins('C17')
PROOF_FILES = ['Proofs/BumpProofs.v', 'Proofs/RegistryProofs.v', 'Props/C17.v']
FINDINGS = {'utf16': 'C05-byte-columns-sent-as-utf16', 'gha-quoted-uses': 'C05-quoted-uses-range-shifted'}


def run(tier, seed):
    rep = C.Report(PID, tier, seed, 'proof')
    proofs_ok = C.standard_proof_phase(rep, ['parsers', 'registries'], ['theories/Props/C17.vo', 'theories/Run/ActionRun.vo', 'theories/Run/RegistryRun.vo'], 'Props.C17', PINS['theorems'], PROOF_FILES, ['theories/Run/RegistryOracle.vo'], imports=PINS['imports'])
    hok, hlog = C.build_harness()
    if not hok:
        rep.broke('harness does not build against /repo', hlog[-1500:])
        return rep.finish()
    stats = collections.Counter()
    docs, caches, shas, outs = c07.run_stream(rep, tier, seed, only_gha=True, sha_faults=True)
    c07.hash_oracle(rep, docs, caches, shas, outs, stats, FINDINGS)
    # what the parser makes of a hash-pinned step: the version is the comment when there is one
    for d, o in zip(docs, outs):
        if o['out']['pkgs'] == 'panic':
            continue
        for e in d.declared:
            if e['hash'] is None or 'gha-quoted-uses' in e['classes']:
                continue
            pk = [p for p in o['out']['pkgs'] if p['hash'] == e['hash']]
            if len(pk) != 1:
                continue
            want = e['comment'] if e['spec'] is not None else e['hash']
            stats['pinned_steps'] += 1
            if pk[0]['version'] != want or pk[0]['name'] != e['name']:
                rep.violation(f'hash-pinned step {e["name"]!r}: judged by {pk[0]["version"]!r}, the trailing comment says {want!r}', {'document': d.text, 'reported': pk[0]})
    # the verdict for a hash without a comment (open finding: it is judged as a version string)
    case = {'eco': 'gha', 'name': 'actions/checkout', 'spec': '8e5e7e5ab8b370d6c329ec480221332ada57f0ab', 'ignore_pre': True, 'fills': [{'op': 'store', 'vs': ['v4.1.0', 'v4.1.7']}]}
    vouts, err = C.run_harness('verdict', 0, 0, stdin=json.dumps(case) + '\n')
    if err:
        rep.broke('harness stream verdict failed', err)
    for vo in vouts or []:
        if vo['out'] not in (None, [], 'none') and 'Invalid version format' in json.dumps(vo['out']):
            rep.known('C17-hash-only-gets-invalid-verdict', {'case': case, 'diagnostic': vo['out']})
        elif vo['out'] not in (None, [], 'none', {'diag': None}):
            rep.note(f'verdict for a hash-only pin: {json.dumps(vo["out"])[:200]}')
    # the tag source adapter itself (fetch_tag_sha against the scripted HTTP server): tag maps whose names are prefixes or
    # semver-equal spellings of each other, a failure status, an unknown tag
    import random
    rnd = random.Random(seed * 31 + 17)
    gen = []
    fams = [['v4', 'v4.1', 'v4.1.0', 'v4.1.0-rc.1'], ['v1', 'v1.0', 'v1.0.0', '1.0.0'], ['v2.3.4', 'v2.3', 'v2', 'v02.3.4'], ['release/v1', 'v1', 'v1.0.0+build']]
    for _ in range(150 if tier == 'quick' else 4000):
        fam = rnd.choice(fams)
        tags = rnd.sample(fam, rnd.randrange(1, len(fam) + 1))
        rnd.shuffle(tags)
        lst = [c15.Obj([('name', t), ('commit', c15.Obj([('sha', '%040x' % rnd.getrandbits(160)), ('url', 'u')]))]) for t in tags]
        ask = rnd.choice(fam + ['v9.9.9'])
        status = rnd.choice([200] * 8 + [404, 429, 500, 403])
        text = c15.dumps(lst)
        script = {'adapter': 'github_tags', 'name': rnd.choice(c15.NAMES['github']), 'tag': ask, 'down': False, 'pages': [{'status': status, 'headers': [], 'body': text}], 'ts': []}
        gen.append((script, (lst, text, status, []), []))
    gen += [g for g in (c15.gen_case(rnd) for _ in range(400 if tier == 'quick' else 8000)) if g[0]['adapter'] == 'github_tags']
    routs, err = C.run_harness('registry', 0, 0, stdin='\n'.join(json.dumps(g[0]) for g in gen) + '\n', timeout=3000)
    if err:
        rep.broke('harness stream registry (tags) failed', err)
    rterms = [c15.case_term(g[0], g[1], g[2], o['out']) for g, o in zip(gen, routs or []) if o['out']['result'] not in ('panic', 'hang')]
    rbad, rerrs = C.coq_eval_verdicts(PID, 'tagoracle', c15.ORACLE_IMPORTS, 'reg_case', rterms, 'reg_oracle')
    for e in rerrs:
        rep.broke('tag oracle evaluation failed', e)
    for k in sorted(rbad)[:3]:
        g, o = gen[k], routs[k]
        rep.violation(f'tag lookup {g[0]["tag"]!r}: {c15.ORACLE_MSG.get(rbad[k], rbad[k])}', {'script': g[0], 'impl': o['out']})
    if proofs_ok:
        rbad2, rerrs2 = C.coq_eval_verdicts(PID, 'tagcorr', c15.IMPORTS, 'reg_case', rterms, 'reg_corr')
        for e in rerrs2:
            rep.broke('tag adapter model evaluation failed', e)
        if rbad2:
            k = sorted(rbad2)[0]
            rep.broke('correspondence Model.Registry.fetch_tag_sha vs github.rs', {'first_disagreement': {'script': gen[k][0], 'impl': routs[k]['out']}, 'count': len(rbad2)})
    stats['tag_lookups'] = len(rterms)
    # correspondence
    if proofs_ok and outs:
        terms, owner = [], []
        for i, (d, cache, sha, o) in enumerate(zip(docs, caches, shas, outs)):
            if o['out']['pkgs'] == 'panic':
                continue
            ts = c07.case_terms(d, cache, sha, o['out'])
            terms += ts
            owner += [(i, k) for k in range(len(ts))]
        bad, errs = C.coq_eval_verdicts(PID, 'corr', c07.IMPORTS, 'action_case', terms, 'action_corr', timeout=1500)
        for e in errs:
            rep.broke('action model evaluation failed', e)
        if bad:
            k = sorted(bad)[0]
            i, c = owner[k]
            rep.broke('correspondence Model.CodeAction vs code_action.rs (hash-pinned)', {'first_disagreement': {'document': docs[i].text, 'cache': caches[i], 'sha': shas[i], 'cursor': outs[i]['out']['cursors'][c]}, 'count': len(bad)})
        rep.cov['traces_validated_against_impl'] = len(terms) - len(bad)
    rep.cov.update({'evaluations': stats['hash_cursors'] + stats['pinned_steps'], 'distinct_nontrivial': stats['hash_offers_checked'],
                    'rule': 'generated workflows (steps with hash pins with/without comment, quoted values, sub-path actions, several jobs, composite actions) x cached release sets x tag->commit maps in which '
                            '35% of the tags are unknown and 15% fail (rate limit), x cursors over every pinned step; every offered edit is applied (UTF-16 columns) and the edited workflow re-parsed; '
                            'non-trivial = cursor positions whose offers were compared with the reference'})
    rep.cov['streams']['hash_pinned'] = dict(stats)
    rep.cov['samples'] = [{'document': docs[0].text[:400], 'cache': caches[0], 'sha': shas[0]}] if docs else []
    rep.assumptions = ['the tag source is any function tag -> commit in the theorems; the stream scripts it through the public TagShaFetcher trait; the HTTP adapter behind it (exact-name lookup in the first page of tags) is part of C15',
                       'the production handler builds its fetcher with GitHubRegistry::default(); the stream calls generate_bump_code_actions_with_sha directly']
    if tier == 'thorough' and proofs_ok:
        C.coqchk(rep, ['VL.Props.C17'])
    return rep.finish()
