"""C16 - which files are checked (detect_parser_type, registry names)."""
from . import common as C

PID = 'C16'
SECTIONS = ['detect', 'resolver']
TARGETS = ['theories/Props/C16.vo']
ORACLE_TARGETS = ['theories/Spec/UriClass.vo']
PROOF_FILES = ['Proofs/DetectProofs.v', 'Proofs/ResolverProofs.v', 'Lib/Bytes.v', 'Lib/Reg.v']
PINS = C.load_pins('C16')
THEOREMS = PINS['theorems']


def case_term(c):
    return C.g_pair(C.g_bytes(c['in']), str(99 if c['out'] is None else c['out']))


def run(tier, seed):
    rep = C.Report(PID, tier, seed, 'proof')
    proofs_ok = C.standard_proof_phase(rep, SECTIONS, TARGETS, 'Props.C16', THEOREMS, PROOF_FILES, ORACLE_TARGETS, imports=PINS['imports'])
    hok, hlog = C.build_harness()
    if not hok:
        rep.broke('harness does not build against /repo', hlog[-1500:])
        return rep.finish()
    n = 3000 if tier == 'quick' else 60000
    cases, err = C.run_harness('detect', seed, n)
    if err:
        rep.broke('harness stream detect failed', err)
    cases = cases or []
    terms = [case_term(c) for c in cases]
    rep.cov['evaluations'] = len(cases)
    distinct = {c['in'] for c in cases if c['out'] is not None}
    near = {c['in'] for c in cases if c['out'] is None and any(k in c['in'] for k in ('.github', 'package.json', 'go.mod', 'deno.json', 'Cargo.toml', 'pyproject.toml', 'pnpm-workspace'))}
    rep.cov['distinct_nontrivial'] = len(distinct) + len(near)
    rep.cov['rule'] = ('URIs from a component generator (prefix x 0-4 directory components biased to .github/workflows/actions and look-alikes x '
                       'file names incl. look-alikes, both separators, mixed separators) after a fixed corpus; non-trivial = accepted, or rejected while '
                       'containing a significant name; distinct by URI string')
    by_out = {}
    for c in cases:
        by_out[str(c['out'])] = by_out.get(str(c['out']), 0) + 1
    rep.cov['streams']['detect'] = {'cases': len(cases), 'answers': by_out, 'accepted_distinct': len(distinct), 'near_miss_distinct': len(near)}
    rep.cov['samples'] = [c for c in cases if c['out'] is not None][:3] + [c for c in cases if c['in'] in near][:3]

    # property oracle: reference classification (Spec only) vs the implementation's answers
    bad, errs = C.coq_eval_verdicts(PID, 'oracle', 'From VL Require Import Lib.Bytes Lib.Reg Spec.UriClass.',
                                    'bytes * N', terms,
                                    '(fun c => if N.eqb (opt_reg_code (classify (fst c))) (snd c) then 0 else 1)')
    for e in errs:
        rep.broke('oracle evaluation failed', e)
    for i in sorted(bad)[:5]:
        c = cases[i]
        exp = C.coq_eval_show(PID, 'oracle', 'From VL Require Import Lib.Bytes Lib.Reg Spec.UriClass.',
                              [f'opt_reg_code (classify {C.g_bytes(c["in"])})'])
        rep.violation(f'detect_parser_type({c["in"]!r}) = {c["out"]} but the classification of the property is {exp[0]} (99 = not checked)',
                      {'uri': c['in'], 'impl': c['out'], 'spec': exp[0], 'replay': f'vlsp-harness detect; uri={c["in"]!r}'})
    # correspondence: model (generated tables) vs implementation
    if proofs_ok:
        bad2, errs2 = C.coq_eval_verdicts(PID, 'corr', 'From VL Require Import Lib.Bytes Lib.Reg Model.Detect.',
                                          'bytes * N', terms,
                                          '(fun c => if N.eqb (opt_reg_code (detect (fst c))) (snd c) then 0 else 1)')
        for e in errs2:
            rep.broke('model evaluation failed', e)
        if bad2:
            i = sorted(bad2)[0]
            rep.broke('correspondence Model.Detect.detect vs detect_parser_type', {'first_disagreement': cases[i], 'count': len(bad2)})
        rep.cov['traces_validated_against_impl'] = len(cases) - len(bad2)
    # wiring of create_default_resolvers(): property oracle on the real table
    rows, err = C.run_harness('resolvers', seed, 0)
    if err:
        rep.broke('harness stream resolvers failed', err)
    names = ['GitHubActions', 'Npm', 'CratesIo', 'GoProxy', 'PnpmCatalog', 'Jsr', 'PyPI']
    seen = 0
    for row in rows or []:
        k = row['in']['key']
        if k == 'count':
            if row['out'] != 7:
                rep.violation(f'create_default_resolvers() has {row["out"]} entries, expected one per ecosystem (7)', {'resolvers': row['out']})
            continue
        seen += 1
        o = row['out']
        want_source = 1 if k == 4 else k   # pnpm catalogs are fetched from the npm registry
        if o == 'missing' or o['matcher'] != k or o['registry'] != want_source or o['parsed'] != [k]:
            rep.violation(f'documents of {names[k]} are not handled with that ecosystem\'s own rules: resolver entry {o} '
                          f'(matcher/registry/parsed registry types; expected matcher={k}, registry={want_source}, parsed=[{k}])',
                          {'registry_type': names[k], 'resolver_entry': o, 'replay': 'vlsp-harness resolvers'})
    rep.cov['streams']['resolvers'] = {'rows': seen}
    rep.cov['evaluations'] += seen
    # gating on the in-process LspService: a document gets diagnostics AND code actions when the reference classification
    # (Spec.UriClass, evaluated in Coq) says its URI names a supported manifest, and neither of them otherwise
    from .c14 import DOCS
    import json as _json
    KEY_OF = {0: 'github', 1: 'npm', 2: 'crates', 3: 'goProxy', 4: 'pnpmCatalog', 5: 'jsr', 6: 'pypi'}
    guris = ['file:///w/package.json', 'file:///a/b/Cargo.toml', 'file:///w/go.mod', 'file:///w/pyproject.toml', 'file:///w/pnpm-workspace.yaml', 'file:///w/deno.json',
             'file:///w/deno.jsonc', 'file:///w/.github/workflows/ci.yml', 'file:///w/.github/actions/x/action.yaml', 'file:///src/acme/.github/.github/workflows/ci.yml',
             'file:///w/mypackage.json', 'file:///w/package.json.bak', 'file:///w/package.json?ref=main', 'file:///w/package.json#L1', 'file:///w/notes.txt#/package.json',
             'file:///w/go.mod.bak', 'file:///w/x.github/workflows/ci.yml', 'file:///w/.github/workflows/readme.md', 'file:///w/.github/ci.yml', 'file:///w/Cargo.toml.orig',
             'file:///w/notes.txt', 'file:///w/cargo.toml', 'file:///w/PACKAGE.JSON', 'file:///w/sub/dir/package.json', 'file:///w/pnpm-workspace.yml', 'file:///w/Cargo.toml?x=1']
    codes = C.coq_eval_show(PID, 'gate', 'From VL Require Import Lib.Bytes Lib.Reg Spec.UriClass.', [f'opt_reg_code (classify {C.g_bytes(u)})' for u in guris])
    scripts, gmeta = [], []
    for u, code in zip(guris, codes or []):
        code = int(str(code).split(':')[0].replace('%N', '').strip())
        if code in KEY_OF:
            k = KEY_OF[code]
        else:
            lu = u.lower()
            k = 'goProxy' if 'go.mod' in lu else 'crates' if 'cargo' in lu else 'github' if '.github' in lu else 'pnpmCatalog' if 'pnpm' in lu else 'npm'
        _, text, reg, pkg = DOCS[k]
        line = [i for i, l in enumerate(text.split('\n')) if '1.0.0' in l][0]
        col = text.split('\n')[line].index('jsr:') + 1 if k == 'jsr' else text.split('\n')[line].index('1.0.0') + 1
        vprefix = 'v' if k in ('goProxy', 'github') else ''
        scripts.append({'registry': {}, 'prefill': [{'name': pkg, 'reg': reg, 'vs': [vprefix + '1.0.0', vprefix + '1.0.1', vprefix + '2.0.0']}], 'config': 'none', 'gated': False,
                        'steps': [{'op': 'open', 'uri': u, 'text': text}, {'op': 'action', 'uri': u, 'line': line, 'character': col}]})
        gmeta.append((u, code in KEY_OF, k))
    gouts, err = C.run_harness('backend', 0, 0, stdin='\n'.join(_json.dumps(x) for x in scripts) + '\n', timeout=3000)
    if err:
        rep.broke('harness backend (gating)', err)
    ngate = 0
    for (u, sup, k), o in zip(gmeta, gouts or []):
        st = o['out']['steps']
        pubs = [t for t in st[0]['traffic'] if t['kind'] == 'publish']
        acts = st[1]['result']
        offered = isinstance(acts, dict) and acts.get('ok') not in (None, [])
        desc = {'uri': u, 'content_of': k, 'publications': pubs, 'code_action_result': acts}
        ngate += 1
        if sup and (not pubs or not pubs[-1]['diags'] or not offered):
            rep.violation(f'{u} names a supported manifest but did not get both diagnostics and code actions for its outdated dependency', desc)
        if not sup and (pubs or offered):
            rep.violation(f'{u} does not name a supported manifest but received ' + ('diagnostics' if pubs else 'code actions'), desc)
    rep.cov['streams']['gating'] = {'uris': ngate}
    rep.cov['evaluations'] += ngate
    if tier == 'thorough' and proofs_ok:
        C.coqchk(rep, ['VL.Props.C16'])
    rep.assumptions = ['URIs are arbitrary byte strings in the theorems; the harness feeds valid UTF-8 only (Rust &str)',
                       'match_indices yields every occurrence of the directory patterns (they cannot overlap themselves); modelled as all occurrences',
                       'gating of diagnostics / code actions on the classification: exercised on the in-process LspService for a fixed list of supported, look-alike and query / fragment URIs']
    return rep.finish()
