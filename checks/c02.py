"""C02 - range membership per ecosystem."""
import json
import re
import os
import random
import subprocess
from . import common as C
from . import ranges as R

PID = 'C02'
IMPORTS = ('From VL Require Import Lib.Bytes Lib.SemVer Model.SemverUtil Spec.Ranges Spec.NodeSemver Spec.CargoReq '
           'Spec.RangeView Spec.Known Spec.GoGha Run.C02Run.')
TARGETS = ['theories/Props/C02.vo', 'theories/Run/C02Run.vo']
PROOF_FILES = ['Proofs/SemVerOrder.v', 'Proofs/RangeProofs.v', 'Proofs/GoGhaProofs.v', 'Proofs/PypiProofs.v', 'Proofs/GoOrderProofs.v', 'Proofs/ParseShow.v', 'Proofs/GoSameProofs.v', 'Props/C02.v']
PINS = C.load_pins('C02')
THEOREMS = PINS['theorems']
KNOWN_IDS = {11: 'C02-partial-operand-zero-padded', 12: 'C02-valid-range-rejected', 13: 'C02-build-metadata-compared',
             14: 'C02-go-pseudo-version-with-prerelease-base'}


def harness_cases(stream, inputs):
    stdin = '\n'.join(json.dumps(i) for i in inputs) + '\n'
    cases, err = C.run_harness(stream, 0, 0, stdin=stdin, timeout=1800)
    return cases or [], err


def decode(v):
    return v % 100, v // 100 - 1


class Stream:
    """one family of cases: inputs, implementation outputs, Gallina terms, verdict functions"""

    def __init__(self, name, case_type):
        self.name, self.case_type = name, case_type
        self.inputs, self.outs, self.terms, self.describe = [], [], [], []


def eval_stream(rep, st, fns, proofs_ok):
    """fns: list of (label, gallina function, needs_model).  Classifies verdicts into rep."""
    idx = [i for i, t in enumerate(st.terms) if t is not None]
    res = {'cases': len(st.terms), 'panics': len(st.terms) - len(idx)}
    for label, fn, needs_model in fns:
        bad, errs = C.coq_eval_verdicts(PID, f'{st.name}_{label}', IMPORTS, st.case_type, [st.terms[i] for i in idx], fn)
        for e in errs:
            rep.broke(f'{st.name}: {label} evaluation failed', e)
        counts = {}
        for k, v in sorted(bad.items()):
            code, vi = decode(v)
            i = idx[k]
            counts[code] = counts.get(code, 0) + 1
            d = st.describe[i](vi)
            if code == 1:
                rep.violation(f'{st.name}: implementation disagrees with the reference semantics: {d}', {'stream': st.name, 'case': d})
            elif code == 2:
                rep.broke(f'correspondence {st.name}: model and implementation differ', d)
            elif code == 3:
                rep.broke(f'tested link {st.name}: model parser on the printed range differs from Spec.RangeView', d)
            elif code >= 10:
                rep.known(KNOWN_IDS.get(code, f'class{code}'), d)
        res[label] = {'nonzero': len(bad), 'by_code': counts}
    rep.cov['streams'][st.name] = res
    return res


# ---------------------------------------------------------------- npm / crates
def obs_term(v, out, i):
    return C.g_pair(R.g_version(v), R.g_bytes(R.print_version(v)), C.g_bool(out['exists_each'][i]), str(out['compare_each'][i]))


def ast_stream(rep, name, eco, asts, versions_of, printer, g_ast, case_type):
    st = Stream(name, case_type)
    vss = [versions_of(k, a) for k, a in enumerate(asts)]
    send = [{'eco': eco, 'spec': printer(a), 'versions': [R.print_version(v) for v in vs]} for a, vs in zip(asts, vss)]
    cases, err = harness_cases('matchers', send)
    if err:
        rep.broke(f'harness matchers ({name})', err)
    for a, vs, inp, c in zip(asts, vss, send, cases):
        st.inputs.append(inp)
        st.outs.append(c['out'])
        if c['out'] == 'panic':
            st.terms.append(None)
            rep.violation(f'{name}: matcher panicked on spec {inp["spec"]!r}', {'stream': name, 'input': inp, 'outcome': 'panic'})
            st.describe.append(lambda vi, inp=inp: {'spec': inp['spec'], 'outcome': 'panic'})
            continue
        o = c['out']
        # same relation for both verdicts (property text): Latest <-> inside; Invalid -> not inside
        for k in range(len(vs)):
            if (o['compare_each'][k] == 0) != o['exists_each'][k]:
                if o['compare_each'][k] == 0 and inp['spec'].split('||')[0].split()[:1] == ['*']:
                    # known: a range whose first comparator is `*` has no anchor and is reported Latest when unsatisfied
                    rep.known('C02-star-first-reports-latest', {'spec': inp['spec'], 'version': inp['versions'][k]})
                    continue
                rep.violation(f'{name}: "latest inside the range" and "some version inside the range" disagree',
                              {'stream': name, 'spec': inp['spec'], 'version': inp['versions'][k], 'exists': o['exists_each'][k], 'compare': o['compare_each'][k]})
        obs = '[' + '; '.join(obs_term(v, o, k) for k, v in enumerate(vs)) + ']'
        st.terms.append(C.g_pair(g_ast(a), R.g_bytes(inp['spec']), obs))
        st.describe.append(lambda vi, inp=inp, o=o: {'spec': inp['spec'], 'version': inp['versions'][vi] if 0 <= vi < len(inp['versions']) else None,
                                                       'impl_exists': o['exists_each'][vi] if vi >= 0 else None,
                                                       'impl_compare': o['compare_each'][vi] if vi >= 0 else None})
    return st


# ---------------------------------------------------------------- raw strings
JUNK = ['', ' ', 'é 1', '1 é', 'latest', 'abc', '1.2.3.4', '>>1', '^^1.2.3', '>=~1.2.3', '1.2.3 -', ' - 1', '1 - 2 - 3', '||', '1 ||', '|| 1',
        '1.2.3 || ', '^', '~', '>', '>=', '*.1', 'x.1.2', '1.2.3-', '1.2.3+', '01.2.3', '1.02.3', '1.2.3-01', '1.2.3-a..b', '=', 'v', 'vv1',
        '18446744073709551616.0.0', '1.2.3 1.2.4', '1.2.3\t1.2.4', ' 1.2.3', '1.2.3　', '1 2', '^1.2.3 é', 'é', '😀 1 2', '1 - é', '>=1.0.0 <2.0.0',
        '1.x.x', '*', '* 1', '1.*', '~>1.2', '1.2.3 ||| 2', 'workspace:*', 'file:../x', 'npm:foo@1', 'git+https://x', ',', '1,', ',1', '1, 2', '>=1, <2',
        '+1.2.3', '1.+2.3', 'v1', 'V1', 'v1.2', 'v1.2.3-beta', 'v1.2.3-beta+b', 'v0.0.0-20210101000000-abcdefabcdef', 'v1.2.4-0.20210101000000-abcdefabcdef',
        'v1.2.3-beta.0.20210101000000-abcdefabcdef', 'v2.0.0+incompatible', '2.0.0+incompatible', 'v-20210101000000-x', '-', 'v1-', 'main', 'release/v1', '1.2.3.4.5',
        'abcdef0123456789abcdef0123456789abcdef01', 'v1.-2', '1..2', 'v1.2.3.4', 'v4.1.0.final', 'V1.2.3.4-rc.1', 'v1.2.3.4.5.6']
RAW_VERSIONS = ['1.2.3', '1.0.0', '0.0.0', '2.0.0', '1.2.3-beta', '1.2.4', 'v1.2.3', 'v1', 'v2.0.0+incompatible', '2.0.0', 'x', '', '1.2', '1', '1.2.3+b',
                'v0.0.0-20210101000000-abcdefabcdef', 'v1.2.4-0.20210101000000-abcdefabcdef', '1.2.3-beta+b', 'v1.2.3-beta', '18446744073709551615.0.0', '01.2.3', 'é']
ECO_CODE = {'npm': 0, 'crates': 1, 'go': 2, 'gha': 3}


def mutate(rnd, s):
    chars = list(s)
    ops = rnd.randrange(1, 3)
    alphabet = list(' .-+^~<>=|*xXv,0129é\t') + ['||', ' - ', ' ']
    for _ in range(ops):
        k = rnd.random()
        pos = rnd.randrange(len(chars) + 1)
        if k < 0.4:
            chars.insert(pos, rnd.choice(alphabet))
        elif k < 0.7 and chars:
            del chars[min(pos, len(chars) - 1)]
        elif chars:
            chars[min(pos, len(chars) - 1)] = rnd.choice(alphabet)
    return ''.join(chars)


def raw_stream(rep, rnd, n, seeds):
    st = Stream('raw', 'raw_case')
    send = []
    specs = list(JUNK) + ['~>1.2.3', '~=1.2.3', '~>=1.2.3', '^=1.2.3', '^v1.2.3']
    while len(specs) < n:
        specs.append(mutate(rnd, rnd.choice(seeds + JUNK)))
    for s in specs:
        for eco in (['npm', 'crates', 'go', 'gha'] if s in JUNK else [rnd.choice(['npm', 'crates', 'go', 'gha'])]):
            vs = RAW_VERSIONS if s in JUNK else rnd.sample(RAW_VERSIONS, 6) + [mutate(rnd, rnd.choice(RAW_VERSIONS))]
            send.append({'eco': eco, 'spec': s, 'versions': vs})
    cases, err = harness_cases('matchers', send)
    if err:
        rep.broke('harness matchers (raw)', err)
    for inp, c in zip(send, cases):
        st.inputs.append(inp)
        st.outs.append(c['out'])
        if c['out'] == 'panic':
            st.terms.append(None)
            rep.violation(f'raw: {inp["eco"]} matcher panicked on spec {inp["spec"]!r}', {'stream': 'raw', 'input': inp, 'outcome': 'panic'})
            st.describe.append(lambda vi, inp=inp: inp)
            continue
        o = c['out']
        # node-semver reads '~>', '~=', '~>=', '^=' (TILDE = ~>?[v=\s]*xrange, CARET = \^[v=\s]*xrange) as tilde / caret ranges: a spec of
        # that shape over a full version is not malformed
        if inp['eco'] == 'npm' and re.match(r'^(~>?|\^)[v=]*(0|[1-9]\d*)\.(0|[1-9]\d*)\.(0|[1-9]\d*)$', inp['spec']):
            for k, v in enumerate(inp['versions']):
                if re.match(r'^(0|[1-9]\d*)\.(0|[1-9]\d*)\.(0|[1-9]\d*)$', v) and o['compare_each'][k] == 3:
                    rep.violation(f'raw: npm spec {inp["spec"]!r} is reported as malformed (node-semver accepts it)', {'stream': 'raw', 'input': inp, 'version': v, 'impl_compare': 3})
                    break
        obs = '[' + '; '.join(C.g_pair(R.g_bytes(v), C.g_bool(o['exists_each'][k]), str(o['compare_each'][k])) for k, v in enumerate(inp['versions'])) + ']'
        st.terms.append(C.g_pair(str(ECO_CODE[inp['eco']]), R.g_bytes(inp['spec']), obs))
        st.describe.append(lambda vi, inp=inp, o=o: {'eco': inp['eco'], 'spec': inp['spec'], 'version': inp['versions'][vi] if 0 <= vi < len(inp['versions']) else None,
                                                       'impl_exists': o['exists_each'][vi] if vi >= 0 else None, 'impl_compare': o['compare_each'][vi] if vi >= 0 else None})
    return st


# ---------------------------------------------------------------- Go
def go_print(g, v=True):
    k = g[0]
    pre = 'v' if v else ''
    if k == 'rel':
        return f'{pre}{g[1]}.{g[2]}.{g[3]}' + ('+incompatible' if g[4] else '')
    if k == 'pre':
        return f'{pre}{g[1]}.{g[2]}.{g[3]}-{g[4]}'
    if k == 'ps1':
        return f'{pre}{g[1]}.0.0-{g[2]}-{g[3]}'
    if k == 'ps2':
        return f'{pre}{g[1]}.{g[2]}.{g[3]}-{g[4]}.0.{g[5]}-{g[6]}'
    return f'{pre}{g[1]}.{g[2]}.{g[3]}-0.{g[4]}-{g[5]}'


def rnd_gover(rnd):
    M, m, p = rnd.choice([0, 1, 2, 3, 10]), rnd.choice([0, 1, 2, 9]), rnd.choice([0, 1, 5])
    ts = rnd.choice(['20210101000000', '20191109021931', '20240229235959'])
    h = rnd.choice(['abcdefabcdef', '0123456789ab', 'deadbeefcafe'])
    k = rnd.random()
    if k < 0.45:
        return ('rel', M, m, p, M >= 2 and rnd.random() < 0.4)
    if k < 0.6:
        return ('pre', M, m, p, rnd.choice(['beta', 'rc.1', 'alpha.2', '0']))
    if k < 0.75:
        return ('ps1', M, ts, h)
    if k < 0.87:
        return ('ps3', M, m, p + 1, ts, h)
    return ('ps2', M, m, p, rnd.choice(['beta', 'rc.1']), ts, h)


def go_stream(rep, rnd, n):
    st = Stream('go', 'go_case')
    send, meta = [], []
    for _ in range(n):
        g = rnd_gover(rnd)
        spec = go_print(g, rnd.random() < 0.9)
        avail = []
        for _ in range(6):
            a = g if rnd.random() < 0.3 else rnd_gover(rnd)
            t = go_print(a, rnd.random() < 0.8)
            if a[0] == 'rel' and rnd.random() < 0.2:
                t = t.replace('+incompatible', '') if '+incompatible' in t else t + '+incompatible'
            avail.append(t)
        send.append({'eco': 'go', 'spec': spec, 'versions': avail})
        meta.append(g)
    cases, err = harness_cases('matchers', send)
    if err:
        rep.broke('harness matchers (go)', err)
    for g, inp, c in zip(meta, send, cases):
        st.inputs.append(inp)
        st.outs.append(c['out'])
        if c['out'] == 'panic':
            st.terms.append(None)
            rep.violation(f'go: matcher panicked on {inp["spec"]!r}', {'stream': 'go', 'input': inp})
            st.describe.append(lambda vi, inp=inp: inp)
            continue
        o = c['out']
        pseudo = g[0] in ('ps1', 'ps2', 'ps3')
        known = 4 if g[0] == 'ps2' else 0
        obs = '[' + '; '.join(C.g_pair(R.g_bytes(v), C.g_bool(o['exists_each'][k]), str(o['compare_each'][k])) for k, v in enumerate(inp['versions'])) + ']'
        st.terms.append(C.g_pair(C.g_bool(pseudo), str(known), R.g_bytes(inp['spec']), obs))
        st.describe.append(lambda vi, inp=inp, o=o: {'spec': inp['spec'], 'version': inp['versions'][vi] if 0 <= vi < len(inp['versions']) else None,
                                                       'impl_exists': o['exists_each'][vi] if vi >= 0 else None, 'impl_compare': o['compare_each'][vi] if vi >= 0 else None})
    return st


# ---------------------------------------------------------------- GitHub Actions
def tag_print(t, rnd):
    nums, pre = t
    s = rnd.choice(['v', 'v', 'v', '', 'V']) + '.'.join(str(x) for x in nums)
    return s + ('-' + pre if pre else '')


def g_tag(t):
    return '(mkTag [' + ';'.join(str(x) for x in t[0]) + '] ' + R.g_bytes(t[1]) + ')'


def rnd_tag(rnd, near=None):
    k = rnd.choice([1, 2, 3, 3])
    base = list(near[0]) + [0, 0] if near and rnd.random() < 0.6 else [rnd.choice([0, 1, 2, 3, 4, 10]) for _ in range(3)]
    nums = base[:k]
    if near and rnd.random() < 0.3 and nums:
        j = rnd.randrange(len(nums))
        nums[j] = max(0, nums[j] + rnd.choice([-1, 1]))
    pre = rnd.choice(['beta', 'rc.1', 'alpha']) if k == 3 and rnd.random() < 0.25 else ''
    return (nums, pre)


def gha_stream(rep, rnd, n):
    st = Stream('gha', 'gha_case')
    send, meta = [], []
    for _ in range(n):
        s = rnd_tag(rnd)
        avail = [rnd_tag(rnd, s) for _ in range(8)]
        send.append({'eco': 'gha', 'spec': tag_print(s, rnd), 'versions': [tag_print(a, rnd) for a in avail]})
        meta.append((s, avail))
    cases, err = harness_cases('matchers', send)
    if err:
        rep.broke('harness matchers (gha)', err)
    for (s, avail), inp, c in zip(meta, send, cases):
        st.inputs.append(inp)
        st.outs.append(c['out'])
        if c['out'] == 'panic':
            st.terms.append(None)
            rep.violation(f'gha: matcher panicked on {inp["spec"]!r}', {'stream': 'gha', 'input': inp})
            st.describe.append(lambda vi, inp=inp: inp)
            continue
        o = c['out']
        obs = '[' + '; '.join(C.g_pair(g_tag(a), R.g_bytes(inp['versions'][k]), C.g_bool(o['exists_each'][k]), str(o['compare_each'][k])) for k, a in enumerate(avail)) + ']'
        st.terms.append(C.g_pair(g_tag(s), R.g_bytes(inp['spec']), obs))
        st.describe.append(lambda vi, inp=inp, o=o: {'spec': inp['spec'], 'version': inp['versions'][vi] if 0 <= vi < len(inp['versions']) else None,
                                                       'impl_exists': o['exists_each'][vi] if vi >= 0 else None, 'impl_compare': o['compare_each'][vi] if vi >= 0 else None})
    return st


# ---------------------------------------------------------------- PyPI
RUST_WS = '\t\n\x0b\x0c\r \x85\xa0                　'


def rtrim(s):
    return s.strip(RUST_WS)


def pypi_base(spec):
    s = rtrim(rtrim(spec))
    for op in ['>=', '<=', '==', '!=', '~=', '>', '<']:
        if s.startswith(op):
            return rtrim(s[len(op):].split(',')[0])
    return rtrim(s.split(',')[0])


PY_VERS = ['1.0', '1.0.0', '1.5', '1.5.2', '2.0', '2.0.0', '2.0rc1', '2.0.0a1', '1.0.post1', '1.0.dev3', '1!2.0', '0.9', '1.4.2', '1.4.9', '1.5.0', '3', 'x', '', '1.0+local', 'v1.0', '1.0.0.0', '2.28.0', '2.32.5']
PY_OPS = ['>=', '<=', '==', '!=', '~=', '>', '<', '===']


def rnd_pyspec(rnd):
    k = rnd.random()
    if k < 0.05:
        return ''
    if k < 0.15:
        return rnd.choice(['1.0', 'latest', '>=', '==1.*.2', '>=1.0 <2.0', '~=1', '^1.0', '== 1.0 ', ' >=1.0 , <2.0 ', '==1.0.*', '!=1.5.*', '>=2.0rc1', '<2.0.0a1', 'é'])
    n = rnd.choice([1, 1, 2, 2, 3])
    parts = []
    for _ in range(n):
        op = rnd.choice(PY_OPS[:7])
        v = rnd.choice(['1.0', '1.5', '2.0', '1.4.2', '2.0.0', '0.9', '1.0.0', '2.28.0', '3'])
        if op in ('==', '!=') and rnd.random() < 0.3:
            v = v + '.*'
        if op == '~=' and '.' not in v:
            v += '.0'
        parts.append(op + rnd.choice(['', ' ']) + v)
    return rnd.choice([',', ', ', ' , ']).join(parts)


def pypi_stream(rep, rnd, n):
    st = Stream('pypi', 'pypi_case')
    send = []
    for _ in range(n):
        spec = rnd_pyspec(rnd)
        send.append({'spec': spec, 'base': pypi_base(spec), 'versions': rnd.sample(PY_VERS, 8)})
    cases, err = harness_cases('pypi', send)
    if err:
        rep.broke('harness pypi', err)
    # reference answers from `packaging`
    ref = None
    try:
        p = subprocess.run(['python3-vt', os.path.join(C.VERIF, 'checks', 'pep440_ref.py')], input=json.dumps(send), capture_output=True, text=True, timeout=300)
        ref = json.loads(p.stdout)
    except Exception as e:  # the oracle tool is optional tooling of the image
        rep.note(f'packaging reference unavailable: {e!r}')
    disagreements = 0
    for k, (inp, c) in enumerate(zip(send, cases)):
        st.inputs.append(inp)
        st.outs.append(c['out'])
        if c['out'] == 'panic':
            st.terms.append(None)
            rep.violation(f'pypi: matcher panicked on {inp["spec"]!r}', {'stream': 'pypi', 'input': inp})
            st.describe.append(lambda vi, inp=inp: inp)
            continue
        o = c['out']
        obs = '[' + '; '.join(C.g_pair(R.g_bytes(x['v']), C.g_bool(x['ver_ok']), C.g_bool(x['contains']), C.g_bool(x['base_le']), C.g_bool(x['exists']), str(x['compare'])) for x in o['obs']) + ']'
        st.terms.append(C.g_pair(R.g_bytes(inp['spec']), C.g_bool(o['specs_ok']), C.g_bool(o['base_ok']), obs))
        st.describe.append(lambda vi, inp=inp, o=o: {'spec': inp['spec'], 'obs': o['obs'][vi] if 0 <= vi < len(o['obs']) else None})
        # property oracle (PEP 440 as implemented by `packaging`): membership and malformedness
        if ref:
            r = ref[k]
            for x, rx in zip(o['obs'], r['obs']):
                if inp['spec'] == '':
                    want = True   # empty spec admits everything
                else:
                    want = r['spec_ok'] and rx['ver_ok'] and rx['contains']
                if x['exists'] != want and not (inp['spec'] == '' and not x['ver_ok']):
                    disagreements += 1
                    if rtrim(inp['spec']) == inp['spec'] or r['spec_ok'] == o['specs_ok']:
                        rep.violation('pypi: membership differs from PEP 440 (packaging)', {'stream': 'pypi', 'spec': inp['spec'], 'version': x['v'], 'impl_exists': x['exists'], 'packaging': want})
                if inp['spec'] != '' and x['ver_ok'] and (x['compare'] == 0) != x['exists']:
                    rep.violation('pypi: "latest inside" and "some version inside" disagree', {'stream': 'pypi', 'spec': inp['spec'], 'version': x['v'], 'obs': x})
    rep.cov['streams'].setdefault('pypi_packaging', {})['disagreements'] = disagreements
    return st


# ---------------------------------------------------------------- main
def run(tier, seed):
    rep = C.Report(PID, tier, seed, 'proof')
    proofs_ok = C.standard_proof_phase(rep, [], TARGETS, 'Props.C02', THEOREMS, PROOF_FILES, ['theories/Run/C02Run.vo'], imports=PINS['imports'])
    hok, hlog = C.build_harness()
    if not hok:
        rep.broke('harness does not build against /repo', hlog[-1500:])
        return rep.finish()
    rnd = random.Random(seed)
    quick = tier == 'quick'
    lat_versions = R.lattice_versions()

    def mk_versions(nlat):
        def f(k, a):
            if k < nlat:
                return lat_versions if not quick else R.versions_near(rnd, a, 4) + rnd.sample(lat_versions, 20)
            return R.versions_near(rnd, a, 6)
        return f
    total = 0
    nontrivial = 0
    for eco, lat, rgen, printer, g_ast, ctype, fns in (
            ('npm', R.lattice_npm_single(), R.rnd_nrange, R.print_nrange, R.g_nrange, 'npm_case',
             [('oracle', 'npm_oracle', True), ('corr', 'npm_corr', True), ('link', 'npm_link', True)]),
            ('crates', R.lattice_crates_single(), R.rnd_creq, R.print_creq, R.g_creq, 'crates_case',
             [('oracle', 'crates_oracle', True), ('corr', 'crates_corr', True), ('link', 'crates_link', True)])):
        if quick:
            lat = rnd.sample(lat, 120)
        nrand = 500 if quick else 15000
        asts = lat + [rgen(rnd) for _ in range(nrand)]
        st = ast_stream(rep, eco, eco, asts, mk_versions(len(lat)), printer, g_ast, ctype)
        res = eval_stream(rep, st, fns, proofs_ok)
        total += sum(len(i['versions']) for i in st.inputs)
        nontrivial += len({i['spec'] for i in st.inputs})
        rep.cov['samples'].append({'stream': eco, 'spec': st.inputs[-1]['spec'], 'versions': st.inputs[-1]['versions'][:4], 'impl': st.outs[-1]})
        if eco == 'npm':
            # the delegating matchers (pnpm catalog, JSR) must behave exactly like npm
            idxs = rnd.sample(range(len(st.inputs)), min(len(st.inputs), 200 if quick else 3000))
            for other in ('pnpm', 'jsr'):
                cs, err = harness_cases('matchers', [dict(st.inputs[i], eco=other) for i in idxs])
                for i, c in zip(idxs, cs):
                    if c['out'] != st.outs[i]:
                        rep.violation(f'{other} matcher differs from npm on {st.inputs[i]["spec"]!r}', {'stream': other, 'input': st.inputs[i], 'npm': st.outs[i], other: c['out']})
                rep.cov['streams'][other] = {'cases': len(cs), 'compared_with': 'npm'}
    seeds = ['^1.2.3', '>=1.0.0 <2.0.0', '1.0.0 - 2.0.0', '^1 || ^2', '~1.2', '1.x', '>=1.2.3, <2', 'v1.2.3', 'v4', 'v2.0.0+incompatible',
             '~>1.2.3', '~=1.2.3', '~>=1.2.3', '^=1.2.3', '>=\t1.2.3', '^>1.0.0', '~<2.0.0 || ~>1.2.3']      # operator pile-ups node-semver reads as tilde / caret ranges
    st = raw_stream(rep, rnd, 300 if quick else 6000, seeds)
    eval_stream(rep, st, [('corr', 'raw_corr', True), ('oracle', 'gha_ref_oracle', False)], proofs_ok)
    total += sum(len(i['versions']) for i in st.inputs)
    nontrivial += len({(i['eco'], i['spec']) for i in st.inputs})
    rep.cov['samples'].append({'stream': 'raw', 'input': st.inputs[3], 'impl': st.outs[3]})
    st = go_stream(rep, rnd, 300 if quick else 5000)
    eval_stream(rep, st, [('oracle', 'go_oracle', True)], proofs_ok)
    total += sum(len(i['versions']) for i in st.inputs)
    nontrivial += len({i['spec'] for i in st.inputs})
    rep.cov['samples'].append({'stream': 'go', 'input': st.inputs[0], 'impl': st.outs[0]})
    st = gha_stream(rep, rnd, 300 if quick else 5000)
    eval_stream(rep, st, [('oracle', 'gha_oracle', True)], proofs_ok)
    total += sum(len(i['versions']) for i in st.inputs)
    nontrivial += len({i['spec'] for i in st.inputs})
    rep.cov['samples'].append({'stream': 'gha', 'input': st.inputs[0], 'impl': st.outs[0]})
    st = pypi_stream(rep, rnd, 300 if quick else 5000)
    eval_stream(rep, st, [('corr', 'pypi_corr', True)], proofs_ok)
    total += sum(len(i['versions']) for i in st.inputs)
    nontrivial += len({i['spec'] for i in st.inputs})
    rep.cov['samples'].append({'stream': 'pypi', 'input': st.inputs[0], 'impl': st.outs[0]})
    rep.cov['evaluations'] = total
    rep.cov['distinct_nontrivial'] = nontrivial
    rep.cov['rule'] = ('(spec, version) pairs: specs from the abstract syntax of the ecosystem (every operator x partial/full/x-range operands, AND / OR / hyphen, '
                       'layout bits) over the lattice {0,1,2,10} plus random numbers up to 2^64-1, versions from the lattice {0,1,2,3,10,11}^3 with prerelease variants '
                       'or near the numbers of the spec; junk strings by mutation; evaluations = pairs, distinct_nontrivial = distinct spec strings')
    rep.cov['traces_validated_against_impl'] = total
    rep.assumptions = ['PEP 440 semantics is pep440_rs (oracle); compared against python packaging 26 as a test',
                       'the link parse(print c) = view c between printed ranges and Spec.RangeView is evaluated per case, not proved',
                       'for prerelease versions the oracle accepts either setting of node-semver\'s includePrerelease desugaring flag z (DESIGN Appendix A)']
    if tier == 'thorough' and proofs_ok:
        C.coqchk(rep, ['VL.Props.C02'])
    return rep.finish()
