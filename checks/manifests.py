"""Generators of manifests for the seven file formats: an abstract dependency list is rendered under
randomly chosen layout options; the generator records what the manifest declares (name as the registry
knows it, spec as the package manager reads it), where each spec text sits, and which known-deviation
classes the document falls into (so that a check can tell a listed finding from a new failure)."""
import json
import random


class Out:
    def __init__(self, nl='\n'):
        self.parts = []
        self.nl = nl
        self.n = 0          # bytes so far

    def w(self, s):
        self.parts.append(s)
        self.n += len(s.encode('utf-8'))
        return self

    def mark(self):
        return self.n

    def text(self):
        return ''.join(self.parts)


class Doc:
    def __init__(self, fmt):
        self.fmt = fmt
        self.text = ''
        self.declared = []      # dicts: name, spec, hash, start, end (bytes of the spec text / hash), classes (set)
        self.classes = set()    # document-level known classes
        self.abstract = None
        self.meta = {}

    def finish(self, out, rnd=None):
        self.text = out.text()
        if rnd is not None and rnd.random() < 0.12:
            # no newline at the end of the file (the last line ends with the document)
            self.text = self.text.rstrip('\r\n')
        b = self.text.encode('utf-8')
        for d in self.declared:
            if d.get('start') is not None:
                ls = b.rfind(b'\n', 0, d['start']) + 1
                d['line'] = b.count(b'\n', 0, d['start'])
                d['col_bytes'] = d['start'] - ls
                d['col16'] = len(b[ls:d['start']].decode('utf-8').encode('utf-16-le')) // 2
                d['len16'] = len(b[d['start']:d['end']].decode('utf-8').encode('utf-16-le')) // 2
        return self


RANGES = ['^1.2.3', '~1.0.0', '>=1.0.0 <2.0.0', '1.x', '*', '1.2.3', '^0.2.3', '>=1.0.0', '1.0.0 - 2.0.0', '^1.0.0 || ^2.0.0', '2', '~0.0.1', '1.0.0-beta.1', 'latest', 'next', '<3',
          '<=1.2.3', '>1.0.0', '<2.0.0', '=1.2.3', 'v1.2.3']
NPM_NAMES = ['lodash', 'react', '@types/node', '@babel/core', 'left-pad', 'vue', 'express', '@scope/pkg', 'chalk', 'typescript', 'a', 'is-odd']
NONREG_NPM = [('workspace:*', 'npm-nonregistry'), ('workspace:^', 'npm-nonregistry'), ('file:../local', 'npm-nonregistry'), ('link:../x', 'npm-nonregistry'),
              ('git+https://github.com/u/r.git#v1', 'npm-nonregistry'), ('https://example.com/x.tgz', 'npm-nonregistry'), ('github:user/repo#semver:^1', 'npm-nonregistry'),
              ('user/repo', 'npm-nonregistry')]


def jstr(rnd, s, allow_escape):
    """JSON string literal for s; occasionally with an escape that does not change the value"""
    if allow_escape and rnd.random() < 0.08 and s:
        i = rnd.randrange(len(s))
        if s[i] == '/':
            return '"' + json.dumps(s[:i])[1:-1] + '\\/' + json.dumps(s[i + 1:])[1:-1] + '"', True
        if ord(s[i]) < 128:
            return '"' + json.dumps(s[:i])[1:-1] + '\\u%04x' % ord(s[i]) + json.dumps(s[i + 1:])[1:-1] + '"', True
    return json.dumps(s, ensure_ascii=False), False


def layout_json(rnd):
    return {'indent': rnd.choice(['  ', '    ', '\t', '', ' ']), 'compact': rnd.random() < 0.2, 'colon': rnd.choice([': ', ':', ' : ', ':  ']),
            'nl': rnd.choice(['\n', '\n', '\n', '\r\n']), 'trail_nl': rnd.random() < 0.8, 'escape': rnd.random() < 0.25}


def render_json_obj(out, rnd, lay, members, depth, hook=None):
    """members: list of (key, value) with value a python value, ('RAW', text) or a callable(out) -> None (writes the value itself)"""
    ind = lay['indent'] * (depth + 1)
    nl = '' if lay['compact'] else lay['nl']
    out.w('{')
    for i, (k, v) in enumerate(members):
        out.w(nl + ('' if lay['compact'] else ind))
        ks, esc = jstr(rnd, k, lay['escape'])
        if hook:
            hook('key', k, esc)
        out.w(ks + lay['colon'])
        if callable(v):
            v(out)
        elif isinstance(v, dict):
            render_json_obj(out, rnd, lay, list(v.items()), depth + 1)
        else:
            out.w(json.dumps(v, ensure_ascii=False))
        if i + 1 < len(members):
            out.w(',' + (' ' if lay['compact'] else ''))
    out.w(nl + ('' if lay['compact'] else lay['indent'] * depth) + '}')


def gen_package_json(rnd):
    doc = Doc('package_json')
    lay = layout_json(rnd)
    out = Out(lay['nl'])
    sections = []
    names = ['dependencies', 'devDependencies', 'peerDependencies', 'optionalDependencies', 'overrides']
    for sec in rnd.sample(names, rnd.randrange(1, 5)):
        entries = []
        for _ in range(rnd.choice([0, 1, 2, 3, 5])):
            key = rnd.choice(NPM_NAMES)
            k = rnd.random()
            if k < 0.6:
                rg = rnd.choice(RANGES)
                if rnd.random() < 0.15:
                    # blanks inside the quotes, around the range (node-semver trims them; the token is still the whole string)
                    rg = rnd.choice([' ', '  ', '']) + rg + rnd.choice(['', ' '])
                entries.append((key, ('range', rg)))
            elif k < 0.72:
                tgt = rnd.choice(NPM_NAMES)
                entries.append((key, ('alias', tgt, None if rnd.random() < 0.3 else rnd.choice(RANGES))))
            elif k < 0.8:
                entries.append((key, ('skip', rnd.choice(['catalog:', 'catalog:react18']), None)))
            elif k < 0.92:
                v, cls = rnd.choice(NONREG_NPM)
                entries.append((key, ('skip', v, cls)))
            else:
                entries.append((key, ('other', rnd.choice([{'nested': '1.0.0'}, 5, None, ['1.0.0'], True]))))
        # distinct keys within a section (package managers read the last one; not generated)
        seen, uniq = set(), []
        for e in entries:
            if e[0] not in seen:
                seen.add(e[0])
                uniq.append(e)
        sections.append((sec, uniq))
    members = [('name', 'demo'), ('version', '1.0.0')] if rnd.random() < 0.7 else []
    if rnd.random() < 0.4:
        members.append(('description', rnd.choice(['plain', 'héllo wörld ✓', '日本語のパッケージ', 'emoji 🎉 inside'])))
    if rnd.random() < 0.5:
        members.append(('scripts', {'build': 'tsc', 'lodash': '^1.0.0'}))
    if rnd.random() < 0.3:
        members.append(('engines', {'node': '>=18'}))
    if rnd.random() < 0.2:
        members.append(('peerDependenciesMeta', {'react': {'optional': True}}))
    if rnd.random() < 0.15:
        members.append(('bundleDependencies', ['lodash']))

    def sec_writer(sec, entries):
        def wr(o):
            ms = []
            for key, val in entries:
                def vw(o2, key=key, val=val):
                    if val[0] == 'other':
                        o2.w(json.dumps(val[1]))
                        return
                    raw = val[1] if val[0] in ('range', 'skip') else 'npm:' + val[1] + ('@' + val[2] if val[2] is not None else '')
                    lit, esc = jstr(rnd, raw, lay['escape'])
                    start = o2.mark() + 1
                    o2.w(lit)
                    end = o2.mark() - 1
                    cls = set()
                    if esc:
                        cls.add('json-escape')
                    if sec == 'optionalDependencies':
                        pass
                    if val[0] == 'range':
                        doc.declared.append({'name': key, 'spec': raw, 'hash': None, 'start': start, 'end': end, 'classes': cls, 'section': sec, 'token': (start, end)})
                    elif val[0] == 'alias':
                        spec = val[2] if val[2] is not None else 'latest'
                        # the spec text is the part after the last '@' of the specifier
                        s2 = end - len(val[2].encode()) if val[2] is not None else start
                        doc.declared.append({'name': val[1], 'spec': spec, 'hash': None, 'start': s2 if val[2] is not None else start, 'end': end,
                                             'classes': cls | ({'alias-token'} if True else set()), 'section': sec, 'token': (start, end), 'alias': True})
                    elif val[2]:
                        doc.meta.setdefault('nonregistry', []).append({'name': key, 'value': raw, 'class': val[2], 'section': sec})
                ms.append((key, vw))

            def hook(kind, k, esc):
                if esc:
                    doc.meta.setdefault('escaped_keys', []).append(k)
            render_json_obj(o, rnd, lay, ms, 1, hook)
        return wr
    for sec, entries in sections:
        members.append((sec, sec_writer(sec, entries)))
    rnd.shuffle(members)
    esc_keys = []

    def top_hook(kind, k, esc):
        if esc:
            esc_keys.append(k)
    render_json_obj(out, rnd, lay, members, 0, top_hook)
    if lay['trail_nl']:
        out.w(lay['nl'])
    doc.meta['layout'] = lay
    doc.meta['escaped_section_keys'] = esc_keys
    doc.abstract = {'sections': sections}
    return doc.finish(out)


JSR_NAMES = ['@std/path', '@std/assert', '@luca/flag', '@oak/oak', '@a/b']


def gen_deno_json(rnd):
    doc = Doc('deno_json')
    lay = layout_json(rnd)
    out = Out(lay['nl'])
    entries = []
    for _ in range(rnd.choice([0, 1, 2, 4])):
        key = rnd.choice(['@std/path', 'flag', 'oak', '$lib/', 'x', 'assert']) + rnd.choice(['', '', '2'])
        k = rnd.random()
        if k < 0.6:
            entries.append((key, ('jsr', rnd.choice(JSR_NAMES), None if rnd.random() < 0.25 else rnd.choice(RANGES[:10]), None)))
        elif k < 0.7:
            entries.append((key, ('jsr', rnd.choice(JSR_NAMES), rnd.choice(['1', '^1.0.0']), rnd.choice(['/posix', '/mod.ts']))))
        elif k < 0.85:
            entries.append((key, ('other', rnd.choice(['npm:chalk@5', 'https://deno.land/std@0.200.0/path/mod.ts', './local.ts']))))
        else:
            entries.append((key, ('val', rnd.choice([5, None, {'a': 'jsr:@x/y@1'}]))))
    seen, uniq = set(), []
    for e in entries:
        if e[0] not in seen:
            seen.add(e[0])
            uniq.append(e)
    lead_comment = rnd.random() < 0.1
    if lead_comment:
        out.w(rnd.choice(['// deno configuration', '/* config */']) + lay['nl'])
        doc.classes.add('jsonc-leading-comment')

    def imports_writer(o):
        ms = []
        for key, val in uniq:
            def vw(o2, val=val):
                if val[0] == 'val':
                    o2.w(json.dumps(val[1]))
                    return
                if val[0] == 'other':
                    o2.w(json.dumps(val[1]))
                    return
                raw = 'jsr:' + val[1] + ('@' + val[2] if val[2] is not None else '') + (val[3] or '')
                lit, esc = jstr(rnd, raw, lay['escape'])
                start = o2.mark() + 1
                o2.w(lit)
                end = o2.mark() - 1
                cls = {'alias-token'}
                if esc:
                    cls.add('json-escape')
                if val[3]:
                    cls.add('jsr-subpath')
                if val[2] is not None:
                    s2 = start + len(('jsr:' + val[1] + '@').encode())
                    e2 = s2 + len(val[2].encode())
                else:
                    s2, e2 = start, end
                doc.declared.append({'name': val[1], 'spec': val[2] if val[2] is not None else 'latest', 'hash': None, 'start': s2, 'end': e2, 'classes': cls, 'token': (start, end), 'alias': True})
            ms.append((key, vw))
        render_json_obj(o, rnd, lay, ms, 1)
    members = []
    if rnd.random() < 0.5:
        members.append(('tasks', {'dev': 'deno run main.ts'}))
    if rnd.random() < 0.3:
        members.append(('compilerOptions', {'strict': True}))
    members.append(('imports', imports_writer))
    rnd.shuffle(members)
    esc_keys = []
    render_json_obj(out, rnd, lay, members, 0, lambda kind, k, esc: esc_keys.append(k) if esc else None)
    if lay['trail_nl']:
        out.w(lay['nl'])
    doc.meta['escaped_section_keys'] = esc_keys
    return doc.finish(out)


CRATES = ['serde', 'tokio', 'rand', 'regex', 'anyhow', 'serde_json', 'tower-lsp', 'log']
CARGO_REQS = ['1.0', '1.0.100', '^1.2', '~1.2.3', '>=1.0, <2.0', '=1.0.0', '*', '0.3', '1', '1.0.0-rc.1', '>=1.2.0']


def gen_cargo_toml(rnd):
    doc = Doc('cargo_toml')
    nl = rnd.choice(['\n', '\n', '\n', '\r\n'])
    out = Out(nl)
    eq = rnd.choice([' = ', '=', ' =  '])
    tables = []
    for t in rnd.sample(['dependencies', 'dev-dependencies', 'build-dependencies', 'workspace.dependencies', "target.'cfg(unix)'.dependencies"], rnd.randrange(1, 4)):
        tables.append(t)
    if rnd.random() < 0.6:
        out.w('[package]' + nl + 'name' + eq + '"demo"' + nl + 'version' + eq + '"0.1.0"' + nl)
        if rnd.random() < 0.3:
            out.w('description' + eq + '"héllo ✓"' + nl)
        out.w(nl)
    for t in tables:
        header_style = rnd.random()
        tcls = set()
        if t.startswith('target.'):
            tcls.add('cargo-target-table')
        hdr = t
        if header_style < 0.08 and '.' not in t:
            hdr = '"' + t + '"'
            tcls.add('toml-quoted-key')
        out.w(rnd.choice(['', '  ']) + '[' + rnd.choice(['', ' ']) + hdr + rnd.choice(['', ' ']) + ']' + rnd.choice(['', ' # deps']) + nl)
        used = set()
        subtables = []
        for _ in range(rnd.choice([0, 1, 2, 3, 4])):
            name = rnd.choice(CRATES)
            if name in used:
                continue
            used.add(name)
            req = rnd.choice(CARGO_REQS)
            form = rnd.random()
            cls = set(tcls)
            q = '"'
            if rnd.random() < 0.1:
                q = "'"
                cls.add('toml-literal-string')
            key = name
            if rnd.random() < 0.06:
                key = '"' + name + '"'
                cls.add('toml-quoted-key')
            ind = rnd.choice(['', '', '  '])
            if form < 0.4:
                out.w(ind + key + eq + q)
                s = out.mark()
                out.w(req)
                e = out.mark()
                out.w(q)
                doc.declared.append({'name': name, 'spec': req, 'hash': None, 'start': s, 'end': e, 'classes': cls, 'token': (s, e)})
            elif form < 0.6:
                extra_before = rnd.choice(['', 'features' + eq + '["derive"], ', 'default-features' + eq + 'false, '])
                extra_after = rnd.choice(['', ', features' + eq + '["full"]', ', optional' + eq + 'true'])
                if 'features' in extra_before and 'features' in extra_after:
                    extra_after = ', optional' + eq + 'true'          # a key twice in one table is not TOML
                rename = rnd.random() < 0.15
                real = rnd.choice(CRATES) if rename else name
                out.w(ind + key + eq + '{ ' + extra_before + 'version' + eq + q)
                s = out.mark()
                out.w(req)
                e = out.mark()
                out.w(q + extra_after + (', package' + eq + '"' + real + '"' if rename else '') + ' }')
                if rename:
                    cls.add('cargo-renamed')
                doc.declared.append({'name': real, 'spec': req, 'hash': None, 'start': s, 'end': e, 'classes': cls, 'token': (s, e)})
            elif form < 0.7:
                out.w(ind + key + (rnd.choice([' . version', '. version', ' .version']) if rnd.random() < 0.12 else '.version') + eq + q)
                s = out.mark()
                out.w(req)
                e = out.mark()
                out.w(q)
                doc.declared.append({'name': name, 'spec': req, 'hash': None, 'start': s, 'end': e, 'classes': cls, 'token': (s, e)})
            elif form < 0.8:
                out.w(ind + key + eq + rnd.choice(['{ path' + eq + '"../x" }', '{ path' + eq + '"../x", version' + eq + '"1.0" }', '{ workspace' + eq + 'true }',
                                                    '{ version' + eq + '"1.0", registry' + eq + '"mine" }', '{ git' + eq + '"https://github.com/x/y" }', '{ workspace' + eq + 'true, features' + eq + '["a"] }']))
            elif form < 0.86:
                out.w(ind + key + rnd.choice(['.workspace' + eq + 'true', '.path' + eq + '"../y"', '.features' + eq + '["x"]', '.git' + eq + '"https://github.com/x/y"',
                                              '.branch' + eq + '"main"', '.default-features' + eq + 'false', '.optional' + eq + 'true']))
            else:
                subtables.append((name, req, cls | {'cargo-dependency-subtable'}))
                continue
            out.w(rnd.choice(['', '', ' # pinned', '  #c']) + nl)
            if rnd.random() < 0.1:
                out.w(rnd.choice(['', '# a comment']) + nl)
        for name, req, cls in subtables:
            out.w(nl + '[' + t + '.' + name + ']' + nl + 'version' + eq + '"')
            s = out.mark()
            out.w(req)
            e = out.mark()
            out.w('"' + nl)
            doc.declared.append({'name': name, 'spec': req, 'hash': None, 'start': s, 'end': e, 'classes': cls, 'token': (s, e)})
        out.w(nl if rnd.random() < 0.8 else '')
    if rnd.random() < 0.3:
        out.w('[features]' + nl + 'default' + eq + '[]' + nl + 'serde' + eq + '["dep:serde"]' + nl)
    if rnd.random() < 0.2:
        out.w('[[bin]]' + nl + 'name' + eq + '"x"' + nl)
    return doc.finish(out, rnd)


PY_NAMES = ['requests', 'Django', 'typing_extensions', 'numpy', 'zope.interface', 'a-b', 'Flask']
PY_SPECS = ['>=2.0', '==1.0.0', '~=1.4', '>=1.0,<2.0', '!=1.5', '<3', '>1', '>=1.0, <2.0', '== 2.31.0', '>= 1.0', '', '<4.0,>=3.2', '!=1.25.0,>=1.21.1', '>19.0,<=23.1', '<6,>=5.2', '~=2.1,!=2.1.3', '<=3,>1', '==1.*']


def norm_pep_name(n):
    import re
    return re.sub(r'[-_.]+', '-', n).lower()


def norm_pep_spec(s):
    return ','.join(sorted(x.replace(' ', '') for x in s.split(',') if x.strip()))


def gen_pyproject(rnd):
    doc = Doc('pyproject_toml')
    nl = rnd.choice(['\n', '\n', '\n', '\r\n'])
    out = Out(nl)
    eq = rnd.choice([' = ', '='])

    def array(o, cls0):
        n = rnd.choice([0, 1, 2, 3, 4])
        multi = rnd.random() < 0.6
        o.w('[')
        for i in range(n):
            name = rnd.choice(PY_NAMES)
            spec = rnd.choice(PY_SPECS)
            extras = rnd.choice(['', '', '[security]', '[a,b]'])
            marker = rnd.choice(['', '', '; python_version >= "3.8"', " ; sys_platform == 'win32'"])
            url = rnd.random() < 0.08
            q = '"'
            cls = set(cls0)
            if rnd.random() < 0.1 and '"' not in marker and "'" not in marker:
                q = "'"
            if '"' in marker:
                q = "'"
            sep = rnd.choice(['', '', ' ']) if spec else ''
            o.w((nl + '    ' if multi else ('' if i == 0 else ' ')) + q)
            tok_s = o.mark()
            if url:
                o.w(name + ' @ https://example.com/' + name + '.whl')
                o.w(q)
            else:
                o.w(name + extras + sep)
                s = o.mark()
                o.w(spec)
                e = o.mark()
                o.w(marker)
                tok_e = o.mark()
                o.w(q)
                if ' ' in spec:
                    cls.add('pep508-spaced-spec')
                if '>' in marker or '<' in marker or '=' in marker:
                    if not spec:
                        cls.add('pep508-marker-operator')
                if spec:
                    doc.declared.append({'name': norm_pep_name(name), 'spec': norm_pep_spec(spec), 'hash': None, 'start': s, 'end': e, 'classes': cls, 'token': (tok_s, tok_e), 'raw_spec': spec})
                else:
                    doc.declared.append({'name': norm_pep_name(name), 'spec': '', 'hash': None, 'start': tok_s, 'end': tok_e, 'classes': cls | {'pep508-no-spec'}, 'token': (tok_s, tok_e), 'raw_spec': ''})
            o.w(',' if (i + 1 < n or (multi and rnd.random() < 0.5)) else '')
            if multi and rnd.random() < 0.1:
                o.w('  # why')
        o.w((nl if multi and n else '') + ']')
    blocks = rnd.sample(['project', 'build-system', 'optional', 'tool', 'project-dotted', 'optional-inline'], rnd.randrange(1, 4))
    if 'project-dotted' in blocks and 'project' in blocks:
        blocks.remove('project-dotted')
    if 'optional-inline' in blocks and ('project' in blocks or 'optional' in blocks):
        blocks.remove('optional-inline')
    if 'project-dotted' in blocks:
        # a top-level dotted key belongs to the root table only before the first table header
        blocks.remove('project-dotted')
        blocks.insert(0, 'project-dotted')
    for b in blocks:
        if b == 'project':
            out.w('[project]' + nl + 'name' + eq + '"demo"' + nl)
            if rnd.random() < 0.3:
                out.w('description' + eq + '"héllo ✓"' + nl)
            if rnd.random() < 0.85:
                out.w('dependencies' + eq)
                array(out, set())
                out.w(nl)
                if rnd.random() < 0.25:
                    # a key that is not a bare key right after the dependency array: its strings are not dependencies
                    out.w(rnd.choice(['"keywords"', "'classifiers'", 'urls.mirrors', '"entry-points".console']) + eq + '["flask>=1.0", "http"]' + nl)
            if rnd.random() < 0.3:
                out.w('requires-python' + eq + '">=3.8"' + nl)
        elif b == 'build-system':
            out.w('[build-system]' + nl + 'requires' + eq)
            array(out, set())
            if rnd.random() < 0.25:
                out.w(nl + rnd.choice(['"backend-path"', "'backend-path'", 'backend.path']) + eq + '["src", "tools>=2"]')
            out.w(nl + 'build-backend' + eq + '"setuptools.build_meta"' + nl)
        elif b == 'optional':
            out.w('[project.optional-dependencies]' + nl)
            for g in rnd.sample(['dev', 'test', 'docs'], rnd.randrange(1, 3)):
                out.w(g + eq)
                array(out, set())
                out.w(nl)
        elif b == 'project-dotted':
            out.w('project.dependencies' + eq)
            array(out, {'toml-dotted-section'})
            out.w(nl)
        elif b == 'optional-inline':
            out.w('[project]' + nl + 'name' + eq + '"demo"' + nl + 'optional-dependencies' + eq + '{ dev' + eq)
            n0 = len(doc.declared)
            save_nl = nl
            array(out, {'toml-inline-section'})
            out.w(' }' + nl)
        else:
            out.w('[tool.black]' + nl + 'line-length' + eq + '88' + nl + 'dependencies' + eq + '["notadep>=1"]' + nl)
        out.w(nl)
    return doc.finish(out, rnd)


def yaml_scalar(rnd, s, force_plain=False):
    k = rnd.random()
    plain_ok = s != '' and s[0] not in '*&!|>%@`"\'#-?:[]{},' and ': ' not in s and ' #' not in s
    if s and s[0] in '^~>=<' or s == '*':
        plain_ok = s[0] not in '*>' and plain_ok
    if (k < 0.6 or force_plain) and plain_ok:
        return s, ''
    if k < 0.8:
        return "'" + s.replace("'", "''") + "'", "'"
    return '"' + s + '"', '"'


def gen_pnpm(rnd):
    doc = Doc('pnpm_workspace')
    nl = rnd.choice(['\n', '\n', '\n', '\r\n'])
    out = Out(nl)
    ind = rnd.choice(['  ', '    '])
    blocks = rnd.sample(['packages', 'catalog', 'catalogs', 'other'], rnd.randrange(1, 5))

    def entries(o, depth, cls0):
        used = set()
        for _ in range(rnd.choice([0, 1, 2, 3])):
            name = rnd.choice(NPM_NAMES)
            if name in used:
                continue
            used.add(name)
            spec = rnd.choice(RANGES)
            key, _ = yaml_scalar(rnd, name) if not name.startswith('@') else (rnd.choice(["'" + name + "'", '"' + name + '"']), '')
            val, q = yaml_scalar(rnd, spec)
            if rnd.random() < 0.12:
                # the value on the line after its key (a scalar may start on the next line, indented deeper)
                o.w(ind * depth + key + ':' + nl + ind * (depth + 1))
            else:
                o.w(ind * depth + key + ':' + rnd.choice([' ', '  ']))
            s = o.mark() + len(q)
            o.w(val)
            e = o.mark() - len(q)
            o.w(rnd.choice(['', '', ' # pinned', '  #c']) + nl)
            doc.declared.append({'name': name, 'spec': spec, 'hash': None, 'start': s, 'end': e, 'classes': set(cls0), 'token': (s, e)})
    for b in blocks:
        if b == 'packages':
            out.w('packages:' + nl + ind + "- 'packages/*'" + nl + ind + '- apps/**' + nl)
        elif b == 'catalog':
            if rnd.random() < 0.1:
                name, spec = rnd.choice(['lodash', 'react', 'vue']), rnd.choice(['^1.2.3', '1.0.0'])
                out.w('catalog: { ' + name + ': ')
                s = out.mark()
                out.w(spec)
                e = out.mark()
                out.w(' }' + nl)
                doc.declared.append({'name': name, 'spec': spec, 'hash': None, 'start': s, 'end': e, 'classes': {'yaml-flow'}, 'token': (s, e)})
            else:
                out.w('catalog:' + rnd.choice(['', ' # default']) + nl)
                entries(out, 1, set())
        elif b == 'catalogs':
            out.w('catalogs:' + nl)
            for c in rnd.sample(['react17', 'react18', 'default'], rnd.randrange(1, 3)):
                out.w(ind + c + ':' + nl)
                entries(out, 2, set())
        else:
            out.w('onlyBuiltDependencies:' + nl + ind + '- esbuild' + nl)
        if rnd.random() < 0.3:
            out.w(nl)
    return doc.finish(out, rnd)


ACTIONS = ['actions/checkout', 'actions/setup-node', 'docker/build-push-action', 'owner/repo', 'aws-actions/configure-aws-credentials']
REFS = ['v4', 'v4.1.1', 'v3.5.2', 'main', 'v1', 'v2.0.0-beta.1', 'release/v1']


def gen_workflow(rnd):
    doc = Doc('github_actions')
    nl = rnd.choice(['\n', '\n', '\n', '\r\n'])
    out = Out(nl)
    ind = rnd.choice(['  ', '    '])
    composite = rnd.random() < 0.15
    if composite:
        out.w('name: composite' + nl + 'runs:' + nl + ind + 'using: composite' + nl + ind + 'steps:' + nl)
        base = 2
        jobs = [None]
    else:
        out.w(rnd.choice(['name: CI', 'name: "héllo ✓"', '# workflow' + nl + 'name: x']) + nl + 'on: [push]' + nl + 'jobs:' + nl)
        jobs = rnd.sample(['build', 'test', 'deploy'], rnd.randrange(1, 3))
        base = 3
    for j in jobs:
        if j:
            out.w(ind + j + ':' + nl + ind * 2 + 'runs-on: ubuntu-latest' + nl)
            flow = rnd.random() < 0.06
            steps_key = rnd.choice(['steps', 'steps', 'steps', '"steps"', "'steps'"])
            if flow:
                a, r = rnd.choice(ACTIONS), rnd.choice(REFS[:5])
                out.w(ind * 2 + 'steps: [{ uses: ' + a + '@')
                s = out.mark()
                out.w(r)
                e = out.mark()
                out.w(' }]' + nl)
                doc.declared.append({'name': a, 'spec': r, 'hash': None, 'start': s, 'end': e, 'classes': {'yaml-flow'}, 'token': (s, e)})
                continue
            out.w(ind * 2 + steps_key + ':' + nl)
        pre = ind * (base - 1)
        for _ in range(rnd.choice([1, 2, 3, 4])):
            k = rnd.random()
            lead = pre + '- '
            cont = pre + '  '
            if rnd.random() < 0.4:
                out.w(lead + 'name: ' + rnd.choice(['Checkout', 'héllo ✓ step', 'Build']) + nl)
                lead = cont
            uses_key = rnd.choice(['uses', 'uses', 'uses', 'uses', '"uses"', "'uses'"])
            if k < 0.15:
                out.w(lead + 'run: echo hi' + nl)
                continue
            if k < 0.25:
                val = rnd.choice(['./.github/actions/local', 'docker://alpine:3.8', 'docker://ghcr.io/o/i@sha256:' + 'a' * 64, './local@v1'])
                out.w(lead + uses_key + ': ' + val + nl)
                doc.meta.setdefault('nonregistry', []).append({'value': val, 'class': 'gha-nonregistry' if '@' in val else None})
                continue
            a = rnd.choice(ACTIONS)
            sub = rnd.choice(['', '', '/sub/dir'])
            q = rnd.choice(['', '', '', '"', "'"])
            cls = set()
            if q:
                cls.add('gha-quoted-uses')
            if k < 0.6:
                r = rnd.choice(REFS)
                out.w(lead + uses_key + ':' + (rnd.choice([' ', '  ']) if rnd.random() < 0.9 else nl + cont + ind) + q + a + sub + '@')
                s = out.mark()
                out.w(r)
                e = out.mark()
                out.w(q + rnd.choice(['', '', ' # comment']) + nl)
                doc.declared.append({'name': a, 'spec': r, 'hash': None, 'start': s, 'end': e, 'classes': cls, 'token': (s, e)})
            else:
                h = '%040x' % rnd.getrandbits(160)
                out.w(lead + uses_key + ': ' + q + a + sub + '@')
                s = out.mark()
                out.w(h)
                e = out.mark()
                out.w(q)
                ck = rnd.random()
                if ck < 0.6:
                    ver = rnd.choice(['v4.1.1', 'v3.5.2', 'v4'])
                    extra = ''
                    gap1, gap2 = rnd.choice([' ', '  ', '\t', ' \t']), rnd.choice([' ', '', '  ', '\t'])      # a tab separates a comment as well as a blank does
                    out.w(gap1 + '#' + gap2 + ver + extra)
                    if extra:
                        cls.add('gha-comment-extra-words')
                    doc.declared.append({'name': a, 'spec': ver, 'hash': h, 'start': s, 'end': e, 'classes': cls, 'token': (s, e), 'comment': ver + extra, 'comment_end': out.mark()})
                else:
                    doc.declared.append({'name': a, 'spec': None, 'hash': h, 'start': s, 'end': e, 'classes': cls | {'gha-hash-only'}, 'token': (s, e)})
                out.w(nl)
            if rnd.random() < 0.3:
                out.w(cont + 'with:' + nl + cont + ind + 'node-version: 20' + nl)
    return doc.finish(out, rnd)


GO_MODS = ['golang.org/x/text', 'github.com/stretchr/testify', 'github.com/Azure/azure-sdk-for-go', 'gopkg.in/yaml.v3', 'github.com/a/b/v2', 'example.com/m']
GO_VERS = ['v0.14.0', 'v1.8.4', 'v2.0.0+incompatible', 'v1.2.3-beta.1', 'v0.0.0-20210101000000-abcdefabcdef', 'v1.0.0', 'v3.0.1']


def gen_go_mod(rnd):
    """builds the file as a list of lines of the reference grammar (Spec/GoModFile.v) and renders it"""
    doc = Doc('go_mod')
    nl = rnd.choice(['\n', '\n', '\n', '\r\n'])
    if nl == '\r\n':
        doc.classes.add('gomod-crlf')
    glines = [('other', 'module example.com/demo'), ('other', ''), ('other', 'go 1.21'), ('other', '')]
    blocks = [rnd.choice(['single', 'block', 'block', 'replace', 'exclude', 'comment', 'retract']) for _ in range(rnd.randrange(1, 5))]
    sep = lambda: rnd.choice([' ', ' ', '\t', '  '])
    tail = lambda: rnd.choice([('', None), ('', None), (' ', ' indirect'), ('\t', ' indirect'), (' ', 'x'), (' ', None), ('\t ', None), ('  ', ' indirect  ')])
    for b in blocks:
        if b == 'single':
            m, v = rnd.choice(GO_MODS), rnd.choice(GO_VERS)
            cls = set()
            if rnd.random() < 0.08:
                m = m + '/' + v      # a module path that contains the version text
                cls.add('gomod-path-contains-version')
            glines.append(('require', rnd.choice(['', '', '', ' ', '\t']), sep(), m, sep(), v, tail(), cls))
        elif b == 'block':
            glines.append(('open', '', rnd.choice([' ', '', '  ']), rnd.choice(['', '', ' '])))
            for _ in range(rnd.choice([0, 1, 2, 3])):
                if rnd.random() < 0.1:
                    glines.append(('other', rnd.choice(['', '\t// a comment'])))
                glines.append(('spec', rnd.choice(['\t', '    ', '', '\t\t']), rnd.choice(GO_MODS), sep(), rnd.choice(GO_VERS), tail(), set()))
            ct = rnd.random()
            glines.append(('close', rnd.choice(['', ' ']), rnd.choice([('', None), ('', None), (' ', None), ('\t', None), (' ', ' end of requires'), ('', ' x'), ('  ', '')]) if ct < 0.5 else ('', None)))
        elif b == 'replace':
            if rnd.random() < 0.5:
                glines.append(('other', 'replace example.com/old v1.0.0 => example.com/new v1.2.0'))
            else:
                glines += [('other', 'replace ('), ('other', '\texample.com/old => ../local'), ('other', '\texample.com/x v1.0.0 => example.com/y v1.1.0'), ('other', ')')]
        elif b == 'exclude':
            glines += [('other', 'exclude example.com/bad v1.0.1')] if rnd.random() < 0.5 else [('other', 'exclude ('), ('other', '\texample.com/bad v1.0.1'), ('other', ')')]
        elif b == 'retract':
            glines += [('other', 'retract v1.0.5 // broken')] if rnd.random() < 0.5 else [('other', 'retract ('), ('other', '\tv1.0.0 // bad'), ('other', '\t[v1.1.0, v1.2.0]'), ('other', ')')]
        else:
            glines.append(('other', '// require example.com/not v1.0.0'))
        if rnd.random() < 0.5:
            glines.append(('other', ''))
    out = Out(nl)

    def wtail(t):
        out.w(t[0] + ('//' + t[1] if t[1] is not None else ''))
    for g in glines:
        if g[0] == 'require':
            _, ind, s1, m, s2, v, t, cls = g
            out.w(ind + 'require' + s1 + m + s2)
            s = out.mark()
            out.w(v)
            e = out.mark()
            wtail(t)
            doc.declared.append({'name': m, 'spec': v, 'hash': None, 'start': s, 'end': e, 'classes': cls, 'token': (s, e)})
        elif g[0] == 'spec':
            _, ind, m, s1, v, t, cls = g
            out.w(ind + m + s1)
            s = out.mark()
            out.w(v)
            e = out.mark()
            wtail(t)
            doc.declared.append({'name': m, 'spec': v, 'hash': None, 'start': s, 'end': e, 'classes': cls, 'token': (s, e)})
        elif g[0] == 'open':
            out.w(g[1] + 'require' + g[2] + '(' + g[3])
        elif g[0] == 'close':
            out.w(g[1] + ')')
            wtail(g[2])
        else:
            out.w(g[1])
        out.w(nl)
    doc.abstract = glines
    return doc.finish(out)


def g_gline(g, gb):
    """Gallina term of one line of the reference grammar (gb renders a byte string)"""
    def tl(t):
        return f'(mkTail {gb(t[0])} {"None" if t[1] is None else "(Some " + gb(t[1]) + ")"})'
    if g[0] == 'require':
        return f'(LRequire {gb(g[1])} {gb(g[2])} {gb(g[3])} {gb(g[4])} {gb(g[5])} {tl(g[6])})'
    if g[0] == 'spec':
        return f'(LSpec {gb(g[1])} {gb(g[2])} {gb(g[3])} {gb(g[4])} {tl(g[5])})'
    if g[0] == 'open':
        return f'(LOpen {gb(g[1])} {gb(g[2])} {gb(g[3])})'
    if g[0] == 'close':
        return f'(LClose {gb(g[1])} {tl(g[2])})'
    return f'(LOther {gb(g[1])})'


GENERATORS = {'package_json': gen_package_json, 'deno_json': gen_deno_json, 'cargo_toml': gen_cargo_toml, 'pyproject_toml': gen_pyproject,
              'pnpm_workspace': gen_pnpm, 'github_actions': gen_workflow, 'go_mod': gen_go_mod}
FMT_CODE = {'package_json': 0, 'deno_json': 1, 'cargo_toml': 2, 'pyproject_toml': 3, 'pnpm_workspace': 4, 'github_actions': 5, 'go_mod': 6}


def multiline_yaml(rnd, fmt, g):
    """a generated YAML manifest in which one dependency scalar spans two lines (quoted, plain continuation, folded /
    literal block scalar); None when the drawn document has no candidate line"""
    import re as _re
    t = g(rnd).text
    ls = t.split('\n')
    idx = [k for k, l in enumerate(ls) if (_re.search(r'uses[\'"]?:\s*\S', l) if fmt == 'github_actions' else _re.match(r'^\s+\S+:\s*\S', l))]
    if not idx:
        return None
    k = rnd.choice(idx)
    key, val = ls[k].split(':', 1)
    val = val.split(' #')[0].strip().strip('"\'')
    ind = ' ' * (len(key) - len(key.lstrip()) + 4)
    cut = rnd.randrange(1, max(2, len(val)))
    form = rnd.choice(['dq', 'sq', 'plain', 'fold', 'lit'])
    if form == 'dq':
        ls[k] = key + ': "' + val[:cut] + '\n' + ind + val[cut:] + '"'
    elif form == 'sq':
        ls[k] = key + ": '" + val[:cut] + '\n' + ind + val[cut:] + "'"
    elif form == 'plain':
        ls[k] = key + ': ' + val[:cut] + '\n' + ind + val[cut:]
    elif form == 'fold':
        ls[k] = key + ': >-\n' + ind + val[:cut] + '\n' + ind + val[cut:]
    else:
        ls[k] = key + ': |\n' + ind + val
    return '\n'.join(ls)


def mutate(rnd, text):
    """malformed stream: truncation, token splicing, Unicode injection, deletion"""
    k = rnd.random()
    if not text:
        return text
    if k < 0.35:
        return text[:rnd.randrange(len(text))]
    i = rnd.randrange(len(text))
    if k < 0.55:
        return text[:i] + rnd.choice(['"', "'", '{', '}', '[', ']', ':', ',', '#', '@', '\n', '\r', '=', '\\', '"""', "'''", '- ', '\t', '//']) + text[i:]
    if k < 0.7:
        return text[:i] + rnd.choice(['é', '✓', ' ', ' ', '🎉', '\u0085', '﻿']) + text[i:]
    if k < 0.85:
        j = min(len(text), i + rnd.randrange(1, 6))
        return text[:i] + text[j:]
    j = rnd.randrange(len(text))
    a, b = min(i, j), max(i, j)
    return text[:a] + text[b:] + text[a:b]
