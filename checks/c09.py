"""C09 - at most one fetcher at a time owns a package; a dead owner's claim expires."""
import json
from . import common as C
from . import cachelib as L

PID = 'C09'
PINS = C.load_pins('C09')
PROOF_FILES = ['Proofs/ClaimProofs.v', 'Proofs/CacheProofs.v', 'Proofs/CachePins.v', 'Props/C09.v']
IMPORTS = 'From VL Require Import Lib.Bytes Model.CacheDb Run.CacheRun Run.SchedRun.\nOpen Scope Z_scope.'
T = 30000


def g_xop(o):
    k = o['op']
    if k == 'claim1':
        return f'(XClaim1 {o["h"]}%N {L.gkey(o)} {L.gz(o["now"])})'
    if k == 'claim2':
        return f'(XClaim2 {o["h"]}%N)'
    if k == 'release':
        return f'(XRelease {L.gkey(o)})'
    if k == 'store':
        return f'(XStore {L.gkey(o)} [{"; ".join(L.gb(v) for v in o["vs"])}] {L.gz(o["now"])})'
    if k == 'die':
        return f'(XDie {o["h"]}%N)'
    raise ValueError(k)


def ret_code(r):
    if r == 'parked':
        return 2
    if r is True:
        return 1
    if r is False:
        return 0
    return 99


def case_term(c):
    return '[' + ';\n '.join(f'({g_xop(o)}, {ret_code(s["ret"])}%N, {L.g_snap(s["db"])})' for o, s in zip(c['in']['ops'], c['out']['steps'])) + ']'


def trace_oracle(case):
    """the property on the implementation's own trace: a successful claim while an earlier successful claim on
    the same key is unreleased must come more than T ms (captured clocks) after it; different keys never interact"""
    bad = []
    holder = {}
    pend = {}
    for i, (o, s) in enumerate(zip(case['in']['ops'], case['out']['steps'])):
        k = o['op']
        if k == 'claim1':
            key = (o['reg'], o['name'])
            if s['ret'] == 'parked':
                pend[o['h']] = (key, o['now'])
            elif s['ret'] is True:
                if key in holder and not (o['now'] - holder[key] > T):
                    bad.append((i, f'claim on {key} succeeded at {o["now"]} while the claim taken at {holder[key]} was neither released nor expired'))
                holder[key] = o['now']
            elif s['ret'] is None:
                bad.append((i, 'claim attempt returned an error'))
        elif k == 'claim2':
            key, now = pend.pop(o['h'])
            if s['ret'] is True:
                if key in holder and not (now - holder[key] > T):
                    bad.append((i, f'claim on {key} succeeded (captured time {now}) while the claim taken at {holder[key]} was neither released nor expired'))
                holder[key] = now
            elif s['ret'] is None:
                bad.append((i, 'claim attempt returned an error'))
        elif k == 'release':
            holder.pop((o['reg'], o['name']), None)
    return bad


def seq_trace_oracle(case):
    """the same property on a sequential history of the full cache interface (stores, tag writes, nonexistence marks,
    reads and reopenings in between): only a release or the expiry frees a claim"""
    bad = []
    holder = {}
    for i, (o, s) in enumerate(zip(case['in']['ops'], case['out']['steps'])):
        if o['op'] == 'claim':
            key = (o['reg'], o['name'])
            if s['ret'] is True:
                if key in holder and not (o['now'] - holder[key] > T):
                    bad.append((i, f'claim on {key} succeeded at {o["now"]} while the claim taken at {holder[key]} was neither released nor expired'))
                holder[key] = o['now']
        elif o['op'] == 'release':
            holder.pop((o['reg'], o['name']), None)
    return bad


def progress_oracle(case):
    """an attempt that runs uninterrupted on a key that is unknown, free or expired must succeed"""
    bad = []
    rows = {}
    ops, steps = case['in']['ops'], case['out']['steps']
    for i, (o, s) in enumerate(zip(ops, steps)):
        if o['op'] == 'claim1' and s['ret'] is False:
            bad.append((i, 'first statement cannot report failure without the second being run'))
        if o['op'] == 'claim1' and i > 0:
            prev = {(r[1], r[2]): r for r in steps[i - 1]['db']['pk']}
            row = prev.get((o['reg'], o['name']))
            free = row is not None and (row[4] is None or row[4] < o['now'] - T)
            if free and s['ret'] is not True:
                bad.append((i, f'known package with a free or expired claim ({row}) was not claimed at {o["now"]}: {s["ret"]}'))
            if row is not None and not free and s['ret'] is True:
                bad.append((i, f'claimed although the row {row} holds a live claim at {o["now"]}'))
    return bad


def run(tier, seed):
    rep = C.Report(PID, tier, seed, 'proof')
    proofs_ok = C.standard_proof_phase(rep, ['detect', 'cache'], ['theories/Props/C09.vo', 'theories/Run/SchedRun.vo'], 'Props.C09',
                                       PINS['theorems'], PROOF_FILES, [], imports=PINS['imports'])
    hok, hlog = C.build_harness()
    if not hok:
        rep.broke('harness does not build against /repo', hlog[-1500:])
        return rep.finish()
    n = 250 if tier == 'quick' else 6000
    cases, err = C.run_harness('cache-sched', seed, n, timeout=3000)
    if err:
        rep.broke('harness stream cache-sched failed', err)
    cases = cases or []
    terms = [case_term(c) for c in cases]
    bad, errs = C.coq_eval_verdicts(PID, 'sched', IMPORTS, 'sched_case', terms, 'sched_corr')
    for e in errs:
        rep.broke('scheduler model evaluation failed', e)
    for i in sorted(bad)[:3]:
        step = bad[i] // 100 - 1
        rep.broke('correspondence Model.CacheSched vs real handles', {'schedule_prefix': cases[i]['in']['ops'][:step + 1], 'impl': cases[i]['out']['steps'][step]})
    kinds = {'parked': 0, 'claim_true': 0, 'claim_false': 0, 'takeover': 0}
    for c in cases:
        for (i, msg) in (trace_oracle(c) + progress_oracle(c))[:1]:
            rep.violation(f'claim protocol violated: {msg}', {'schedule': c['in']['ops'][:i + 1], 'step': i, 'impl': c['out']['steps'][i]})
        for o, s in zip(c['in']['ops'], c['out']['steps']):
            if o['op'] in ('claim1', 'claim2'):
                kinds['parked' if s['ret'] == 'parked' else 'claim_true' if s['ret'] is True else 'claim_false'] += 1
    # single-handle histories with the boundary instants (shared with C08's stream)
    seq, err = C.run_harness('cache-seq', seed + 9, 60 if tier == 'quick' else 1500, {'steps': 40}, timeout=3000)
    badseq = L.run_corr(rep, PID, seq or [], tag='seq')
    for c in seq or []:
        for (i, msg) in seq_trace_oracle(c)[:1]:
            rep.violation(f'claim protocol violated: {msg}', {'history': c['in']['ops'][:i + 1], 'step': i, 'impl': c['out']['steps'][i]['ret']})
    for i, step in sorted(badseq.items())[:2]:
        rep.broke('correspondence cache model vs real Cache (sequential claims)', {'history_prefix': seq[i]['in']['ops'][:step + 1]})
    nsteps = sum(len(c['in']['ops']) for c in cases)
    rep.cov.update({'evaluations': nsteps, 'distinct_nontrivial': len({json.dumps([(o['op'], o.get('h')) for o in c['in']['ops']]) for c in cases if any(s['ret'] == 'parked' for s in c['out']['steps'])}),
                    'rule': 'random statement-level schedules of 2-3 claimant handles (threads, one connection each) on one file, with releases, stores, handle death and clock jumps of '
                            '29998/29999/30000/30001 ms; non-trivial = distinct schedule shapes in which at least one claimant was parked between its two statements',
                    'traces_validated_against_impl': len(cases) - len(bad)})
    rep.cov['streams']['cache-sched'] = dict(kinds, schedules=len(cases), steps=nsteps)
    rep.cov['samples'] = [list(zip([o for o in c['in']['ops']], [s['ret'] for s in c['out']['steps']])) for c in cases[:2]]
    rep.assumptions = ['SQLite executes each autocommit statement atomically and serialises writers (assumed; exercised with real connections on one file)',
                       'the claimant reads the clock once, before its first statement (as the code does); the theorem is about captured times',
                       'cross-process behaviour is represented by separate connections in separate threads of one process']
    if tier == 'thorough' and proofs_ok:
        C.coqchk(rep, ['VL.Props.C09'])
    return rep.finish()
