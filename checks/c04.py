"""C04 - exactly the registry dependencies a manifest declares are checked."""
import collections
import json
import random
from . import common as C
from . import parselib as P
from . import manifests as M

PID = 'C04'
PINS = C.load_pins('C04')
PROOF_FILES = ['Proofs/CstProofs.v', 'Proofs/JsonWalkProofs.v', 'Proofs/TomlWalkProofs.v', 'Proofs/PyWalkProofs.v', 'Proofs/YamlWalkProofs.v', 'Proofs/GhaWalkProofs.v', 'Proofs/GoModProofs.v', 'Proofs/ParserPins.v', 'Props/C04.v']

# known-finding id per deviation class (KNOWN_FINDINGS.json)
CLASS_FINDING = {
    'npm-nonregistry': 'C04-npm-nonregistry-specifier-checked',
    'json-escape': 'C04-json-escapes-not-decoded',
    'jsonc-leading-comment': 'C04-jsonc-leading-comment-disables-file',
    'jsr-subpath': 'C04-jsr-subpath-in-version',
    'toml-literal-string': 'C04-toml-literal-string-keeps-quotes',
    'toml-quoted-key': 'C04-toml-quoted-key',
    'cargo-renamed': 'C04-cargo-renamed-package',
    'cargo-target-table': 'C04-cargo-target-and-sub-tables',
    'cargo-dependency-subtable': 'C04-cargo-target-and-sub-tables',
    'toml-dotted-section': 'C04-pyproject-dotted-or-inline-sections',
    'toml-inline-section': 'C04-pyproject-dotted-or-inline-sections',
    'yaml-flow': 'C04-yaml-flow-collections',
    'gha-nonregistry': 'C04-gha-docker-and-local-refs',
    'pnpm-catalog-anywhere': 'C04-pnpm-catalog-key-anywhere',
    'gha-keys-anywhere': 'C04-gha-steps-or-uses-key-anywhere',
    'cargo-dotted-path': 'C04-cargo-dotted-path-with-version',
}

# fixed documents that re-observe listed findings which the generators do not draw: (format, text, class, what the document declares)
FINDING_CORPUS = [
    ('pnpm_workspace', 'overrides:\n  catalog:\n    left-pad: 1.0.0\ncatalog:\n  react: ^18.0.0\n', 'pnpm-catalog-anywhere', [('react', '^18.0.0')]),
    ('github_actions', 'jobs:\n  b:\n    steps:\n      - uses: actions/checkout@v4\n        with:\n          uses: a/b@v1\n', 'gha-keys-anywhere', [('actions/checkout', 'v4')]),
    ('github_actions', 'jobs:\n  steps:\n    runs-on: x\n    uses: c/d@v2\n', 'gha-keys-anywhere', []),
    ('cargo_toml', '[dependencies]\nfoo.path = "../foo"\nfoo.version = "1.2.3"\n', 'cargo-dotted-path', []),
]


def corpus_docs():
    out = []
    for fmt, text, cls, decl in FINDING_CORPUS:
        d = M.Doc(fmt)
        d.text = text
        d.declared = [{'name': n, 'spec': s_, 'hash': None, 'start': None, 'end': None, 'classes': {cls}} for n, s_ in decl]
        d.classes = {cls}
        out.append(d)
    return out


def expected_tuple(d):
    if d['hash']:
        return (d['name'], d.get('comment', d['spec']) if d['spec'] is not None else d['hash'], d['hash'])
    return (d['name'], d['spec'], None)


def impl_tuples(doc, pkgs):
    out = []
    for p in pkgs:
        v = p['version']
        if doc.fmt == 'pyproject_toml':
            v = M.norm_pep_spec(v)
        out.append((p['name'], v, p['hash']))
    return out


def set_oracle(rep, doc, pkgs):
    """the checked set against the declared set; returns the number of unexplained differences"""
    I = collections.Counter(impl_tuples(doc, pkgs))
    S = collections.Counter(expected_tuple(d) for d in doc.declared)
    if I == S:
        return 0
    pre_used = set()
    has_escapes = bool(doc.meta.get('escaped_section_keys') or doc.meta.get('escaped_keys') or any('json-escape' in d['classes'] for d in doc.declared)
                       or '\\u' in doc.text or '\\/' in doc.text)
    if doc.fmt in ('package_json', 'deno_json') and has_escapes:
        # documents with backslash escapes are outside plain_doc: any deviation belongs to that class here; the
        # reference reading evaluated in Coq (json_oracle) is the authority for the JSON manifests
        rep.known(CLASS_FINDING['json-escape'], {'format': doc.fmt, 'document': doc.text[:1500], 'class': 'json-escape'})
        return 0
    if False:
        def un(x):
            try:
                return json.loads('"' + x + '"') if x is not None else x
            except Exception:
                return x
        I2 = collections.Counter((un(a), un(b_), c) for (a, b_, c) in I.elements())
        if I2 != I:
            pre_used.add('json-escape')      # names / specs are reported in their escaped spelling
            I = I2
    missing, extra = S - I, I - S
    doc_classes = set(doc.classes)
    if doc.meta.get('escaped_section_keys') or doc.meta.get('escaped_keys'):
        doc_classes.add('json-escape')
    unexplained = []
    used = set(pre_used)
    for t in missing.elements():
        ds = [d for d in doc.declared if expected_tuple(d) == t]
        cls = set().union(*[d['classes'] for d in ds]) | doc_classes
        hit = [c for c in cls if c in CLASS_FINDING]
        if hit:
            used.update(hit)
        else:
            unexplained.append(('declared but not checked', t))
    nonreg = doc.meta.get('nonregistry', [])
    doc_level = doc_classes & {'pnpm-catalog-anywhere', 'gha-keys-anywhere', 'cargo-dotted-path'}
    for t in extra.elements():
        ok = False
        if doc_level:
            used.update(doc_level)      # a document of the fixed finding corpus: the whole document is the class
            ok = True
        for x in nonreg:
            if x.get('class') and (x.get('name') in (None, t[0])) and (x['value'] == t[1] or x['value'].split('@', 1)[-1] == t[1] or t[1] in x['value']):
                used.add(x['class'])
                ok = True
        if not ok:
            # the distorted reading of a declared entry that belongs to a known class
            for d in doc.declared:
                if (d['classes'] | doc_classes) & set(CLASS_FINDING) and (d['name'].strip('"\'') == t[0].strip('"\'') or d['spec'] in (t[1] or '') or (t[1] or '') in (d.get('raw_spec') or d['spec'] or '')):
                    used.update((d['classes'] | doc_classes) & set(CLASS_FINDING))
                    ok = True
                    break
        if not ok and has_escapes and doc.fmt == 'package_json' and (t[1] or '').startswith('catalog:') and json.dumps(t[1]) not in doc.text:
            used.add('json-escape')           # a catalog: reference whose prefix is written with an escape is not recognised
            ok = True
        if not ok and doc.fmt in ('package_json', 'deno_json'):
            # the raw (still escaped) spelling of a declared entry
            try:
                un = (json.loads('"' + t[0] + '"'), json.loads('"' + (t[1] or '') + '"'))
                for d in doc.declared:
                    if ((d['name'], d['spec']) == un or d['name'] == un[0] or un[1].endswith(d['spec'])) and (un[0] != t[0] or un[1] != t[1]):
                        used.add('json-escape')
                        ok = True
            except Exception:
                pass
        if not ok:
            unexplained.append(('checked but not declared', t))
    for c in used:
        rep.known(CLASS_FINDING[c], {'format': doc.fmt, 'document': doc.text[:1500], 'class': c})
    for what, t in unexplained[:2]:
        rep.violation(f'{doc.fmt}: dependency {what}: name={t[0]!r} spec={t[1]!r}' + (f' hash={t[2]!r}' if t[2] else ''),
                      {'format': doc.fmt, 'document': doc.text, 'declared': sorted(map(str, S.elements())), 'checked': sorted(map(str, I.elements())),
                       'replay': 'echo {"fmt":..,"text":..} | vlsp-harness parse'})
    return len(unexplained)


def metamorphic(rnd, n):
    """pairs of renderings of one abstract manifest: the same generator state twice with different layout draws"""
    out = []
    for _ in range(n):
        fmt = rnd.choice(list(M.GENERATORS))
        seed = rnd.getrandbits(32)
        out.append((fmt, seed))
    return out


def run(tier, seed):
    rep = C.Report(PID, tier, seed, 'proof')
    proofs_ok = C.standard_proof_phase(rep, ['parsers'], ['theories/Props/C04.vo', 'theories/Run/ParseRun.vo'], 'Props.C04', PINS['theorems'], PROOF_FILES, ['theories/Run/ManifestOracle.vo'], imports=PINS['imports'])
    hok, hlog = C.build_harness()
    if not hok:
        rep.broke('harness does not build against /repo', hlog[-1500:])
        return rep.finish()
    rnd = random.Random(seed)
    per = 60 if tier == 'quick' else 1500
    if not proofs_ok:
        per *= 5          # a proof obligation, pin or translator section is broken: widen the search for a failing input
    docs = []
    for fmt, g in M.GENERATORS.items():
        for _ in range(per):
            docs.append(g(rnd))
    docs += corpus_docs()
    pairs = [(d.fmt, d.text) for d in docs]
    outs, err = P.run_docs(pairs)
    if err:
        rep.broke('harness stream parse failed', err)
    nclean, ndev, by_fmt = 0, 0, collections.Counter()
    for d, o in zip(docs, outs):
        pk = o['out']['pkgs']
        if pk == 'panic' or isinstance(pk, dict):
            rep.violation(f'{d.fmt}: the parser {"panics" if pk == "panic" else "fails"} on a well-formed manifest', {'format': d.fmt, 'document': d.text, 'result': pk})
            continue
        n = set_oracle(rep, d, pk)
        by_fmt[d.fmt] += 1
        if n == 0:
            nclean += 1
    # layout independence on documents outside every known class: re-render the same abstract list
    # (same generator seed for the content draws is not separable from layout draws, so equality is checked
    # through the declared set: two documents with equal declared sets must yield equal checked sets)
    groups = collections.defaultdict(list)
    for d, o in zip(docs, outs):
        pk = o['out']['pkgs']
        if isinstance(pk, list) and not (set().union(*[x['classes'] for x in d.declared], d.classes) & set(CLASS_FINDING)) and not d.meta.get('nonregistry') and not d.meta.get('escaped_section_keys') and not d.meta.get('escaped_keys') and '\\u' not in d.text and '\\/' not in d.text:
            key = (d.fmt, tuple(sorted(map(str, (expected_tuple(x) for x in d.declared)))))
            groups[key].append(tuple(sorted(map(str, impl_tuples(d, pk)))))
    nmeta = sum(len(v) for v in groups.values())
    for key, vs in groups.items():
        if len(set(vs)) > 1:
            rep.violation(f'{key[0]}: two renderings of one dependency list yield different checked sets', {'declared': key[1], 'checked_sets': sorted(set(vs))})
    # reference reading in Coq (Spec only) for the JSON manifests: denotation of the real CST, declared list, implementation's list
    jterms, jidx = [], []
    for i, (d, o) in enumerate(zip(docs, outs)):
        if d.fmt in ('package_json', 'deno_json') and isinstance(o['out']['pkgs'], list) and o['out']['cst'] is not None:
            impl = C.g_list([C.g_pair(C.g_bytes(p['name']), C.g_bytes(p['version'])) for p in o['out']['pkgs']])
            exp = C.g_list([C.g_pair(C.g_bytes(x['name']), C.g_bytes(x['spec'])) for x in d.declared])
            jterms.append(f"({M.FMT_CODE[d.fmt]}, {C.g_bytes(d.text)}, {P.g_node(o['out']['cst'])}, {impl}, {exp})")
            jidx.append(i)
    jbad, jerrs = C.coq_eval_verdicts(PID, 'jsonoracle', 'From Coq Require Import ZArith.\nFrom VL Require Import Lib.Bytes Lib.Cst Run.ManifestOracle.\n',
                                      'N * bytes * node * list (bytes * bytes) * list (bytes * bytes)', jterms, 'json_oracle')
    for e in jerrs:
        rep.broke('reference reading (Spec.JsonDoc) evaluation failed', e)
    jcount = collections.Counter(jbad.values())
    for k, v in jbad.items():
        d = docs[jidx[k]]
        if v == 4:
            rep.broke('a tree-sitter-json tree of a generated manifest does not denote a JSON value (CST contract)', {'document': d.text})
        elif v == 5:
            rep.broke('reference reading of a generated manifest differs from the list it was rendered from', {'document': d.text, 'declared': [(x['name'], x['spec']) for x in d.declared]})
        elif v == 6 and not any(what.startswith(d.fmt) for what, _, _ in rep.violations):
            rep.violation(f'{d.fmt}: the checked dependencies differ from the reference reading of the document (outside every known class)',
                          {'format': d.fmt, 'document': d.text, 'checked': outs[jidx[k]]['out']['pkgs']})
    rep.cov['streams']['json_reference'] = {'documents': len(jterms), 'equal': len(jterms) - len(jbad), 'inside_known_class': jcount.get(7, 0),
                                            'theorem_hypotheses_met': len(jterms) - jcount.get(7, 0) - jcount.get(4, 0) - jcount.get(5, 0) - jcount.get(6, 0)}
    # reference reading in Coq (Spec only) for Cargo.toml: denotation of the real tree-sitter-toml CST
    cterms, cidx = [], []
    for i, (d, o) in enumerate(zip(docs, outs)):
        if d.fmt == 'cargo_toml' and isinstance(o['out']['pkgs'], list) and o['out']['cst'] is not None:
            impl = C.g_list([C.g_pair(C.g_bytes(p['name']), C.g_bytes(p['version'])) for p in o['out']['pkgs']])
            exp = C.g_list([C.g_pair(C.g_bytes(x['name']), C.g_bytes(x['spec'])) for x in d.declared])
            cterms.append(f"({C.g_bytes(d.text)}, {P.g_node(o['out']['cst'])}, {impl}, {exp})")
            cidx.append(i)
    cbad, cerrs = C.coq_eval_verdicts(PID, 'cargooracle', 'From Coq Require Import ZArith.\nFrom VL Require Import Lib.Bytes Lib.Cst Run.ManifestOracle.\n',
                                      'bytes * node * list (bytes * bytes) * list (bytes * bytes)', cterms, 'cargo_oracle')
    for e in cerrs:
        rep.broke('reference reading (Spec.TomlDoc) evaluation failed', e)
    ccount = collections.Counter(cbad.values())
    for k, v in cbad.items():
        d = docs[cidx[k]]
        if v == 4:
            rep.broke('a tree-sitter-toml tree of a generated manifest does not denote a TOML document (CST contract)', {'document': d.text})
        elif v == 5:
            rep.broke('reference reading of a generated Cargo.toml differs from the list it was rendered from', {'document': d.text, 'declared': [(x['name'], x['spec']) for x in d.declared]})
        elif v == 6 and not any(what.startswith(d.fmt) for what, _, _ in rep.violations):
            rep.violation('cargo_toml: the checked dependencies differ from the reference reading of the document (outside every known class)',
                          {'format': d.fmt, 'document': d.text, 'checked': outs[cidx[k]]['out']['pkgs']})
    rep.cov['streams']['cargo_reference'] = {'documents': len(cterms), 'equal': len(cterms) - len(cbad), 'inside_known_class': ccount.get(7, 0),
                                             'theorem_hypotheses_met': len(cterms) - sum(ccount.get(x, 0) for x in (4, 5, 6, 7))}
    # ... and for pyproject.toml (PEP 508 strings read by the recorded answers of pep508_rs)
    pterms, pidx = [], []
    for i, (d, o) in enumerate(zip(docs, outs)):
        if d.fmt == 'pyproject_toml' and isinstance(o['out']['pkgs'], list) and o['out']['cst'] is not None:
            impl = C.g_list([C.g_pair(C.g_bytes(p['name']), C.g_bytes(M.norm_pep_spec(p['version']))) for p in o['out']['pkgs']])
            exp = C.g_list([C.g_pair(C.g_bytes(x['name']), C.g_bytes(x['spec'])) for x in d.declared])
            tape = C.g_list([C.g_pair(C.g_bytes(s_), ('None' if (a == 'err' or a == 'panic' or a.get('url')) else f"(Some ({C.g_bytes(a['name'])}, {C.g_bytes(M.norm_pep_spec(a['spec']))}))")) for s_, a in o['out']['pep508']])
            pterms.append(f"({C.g_bytes(d.text)}, {P.g_node(o['out']['cst'])}, {tape}, {impl}, {exp})")
            pidx.append(i)
    pbad, perrs = C.coq_eval_verdicts(PID, 'pyoracle', 'From Coq Require Import ZArith.\nFrom VL Require Import Lib.Bytes Lib.Cst Run.ManifestOracle.\n',
                                      'bytes * node * list (bytes * option (bytes * bytes)) * list (bytes * bytes) * list (bytes * bytes)', pterms, 'pyproject_oracle')
    for e in perrs:
        rep.broke('reference reading (Spec.TomlDoc, pyproject) evaluation failed', e)
    pcount = collections.Counter(pbad.values())
    for k, v in pbad.items():
        d = docs[pidx[k]]
        if v == 4:
            rep.broke('a tree-sitter-toml tree of a generated pyproject.toml does not denote a TOML document (CST contract)', {'document': d.text})
        elif v == 5:
            rep.broke('reference reading of a generated pyproject.toml differs from the list it was rendered from', {'document': d.text, 'declared': [(x['name'], x['spec']) for x in d.declared]})
        elif v == 6 and not any(what.startswith(d.fmt) for what, _, _ in rep.violations):
            rep.violation('pyproject_toml: the checked dependencies differ from the reference reading of the document (outside every known class)',
                          {'format': d.fmt, 'document': d.text, 'checked': outs[pidx[k]]['out']['pkgs']})
    rep.cov['streams']['pyproject_reference'] = {'documents': len(pterms), 'equal': len(pterms) - len(pbad), 'inside_known_class': pcount.get(7, 0)}
    # ... and for the YAML manifests (pnpm-workspace.yaml, workflows / composite actions)
    for yfmt, yor, ytag in (('pnpm_workspace', 'pnpm_oracle', 'pnpm_reference'), ('github_actions', 'gha_oracle', 'gha_reference')):
        yterms, yidx = [], []
        for i, (d, o) in enumerate(zip(docs, outs)):
            if d.fmt == yfmt and isinstance(o['out']['pkgs'], list) and o['out']['cst'] is not None:
                impl = C.g_list([C.g_pair(C.g_bytes(p['name']), C.g_bytes(p['hash'] or p['version'])) for p in o['out']['pkgs']])
                exp = C.g_list([C.g_pair(C.g_bytes(x['name']), C.g_bytes(x['hash'] or x['spec'])) for x in d.declared])
                yterms.append(f"({C.g_bytes(d.text)}, {P.g_node(o['out']['cst'])}, {impl}, {exp})")
                yidx.append(i)
        ybad, yerrs = C.coq_eval_verdicts(PID, ytag, 'From Coq Require Import ZArith.\nFrom VL Require Import Lib.Bytes Lib.Cst Run.ManifestOracle.\n',
                                          'bytes * node * list (bytes * bytes) * list (bytes * bytes)', yterms, yor)
        for e in yerrs:
            rep.broke(f'reference reading (Spec.YamlDoc, {yfmt}) evaluation failed', e)
        ycount = collections.Counter(ybad.values())
        for k, v in ybad.items():
            d = docs[yidx[k]]
            if v == 4:
                rep.broke(f'a tree-sitter-yaml tree of a generated {yfmt} document does not denote a YAML value (CST contract)', {'document': d.text})
            elif v == 5:
                rep.broke(f'reference reading of a generated {yfmt} document differs from the list it was rendered from', {'document': d.text, 'declared': [(x['name'], x['hash'] or x['spec']) for x in d.declared]})
            elif v == 6 and not any(what.startswith(d.fmt) for what, _, _ in rep.violations):
                rep.violation(f'{yfmt}: the checked dependencies differ from the reference reading of the document (outside every known class)',
                              {'format': d.fmt, 'document': d.text, 'checked': outs[yidx[k]]['out']['pkgs']})
        rep.cov['streams'][ytag] = {'documents': len(yterms), 'equal': len(yterms) - len(ybad), 'inside_known_class': ycount.get(7, 0), 'outside_documented_shape': ycount.get(8, 0)}
    # go.mod: the generator's line list (reference grammar) against its rendering, the declared list and the implementation
    gterms, gidx = [], []
    for i, (d, o) in enumerate(zip(docs, outs)):
        if d.fmt == 'go_mod' and isinstance(o['out']['pkgs'], list) and '\r' not in d.text:      # CRLF files are outside the grammar (LF-terminated)
            f = C.g_list([M.g_gline(g, C.g_bytes) for g in d.abstract])
            impl = C.g_list([C.g_pair(C.g_bytes(p['name']), C.g_bytes(p['version'])) for p in o['out']['pkgs']])
            exp = C.g_list([C.g_pair(C.g_bytes(x['name']), C.g_bytes(x['spec'])) for x in d.declared])
            gterms.append(f'({f}, {C.g_bytes(d.text)}, {impl}, {exp})')
            gidx.append(i)
    gbad, gerrs = C.coq_eval_verdicts(PID, 'gomodoracle', 'From Coq Require Import ZArith.\nFrom VL Require Import Lib.Bytes Spec.GoModFile Run.ManifestOracle.\n',
                                      'list gline * bytes * list (bytes * bytes) * list (bytes * bytes)', gterms, 'gomod_oracle')
    for e in gerrs:
        rep.broke('reference reading (Spec.GoModFile) evaluation failed', e)
    gcount = collections.Counter(gbad.values())
    for k, v in gbad.items():
        d = docs[gidx[k]]
        if v in (4, 5):
            rep.broke('the go.mod reference grammar does not render / read a generated file as the generator does', {'code': v, 'document': d.text})
        elif v == 6:
            rep.violation('go_mod: the checked requirements differ from the ones the file declares (a file of the reference grammar)', {'format': 'go_mod', 'document': d.text, 'checked': outs[gidx[k]]['out']['pkgs']})
    rep.cov['streams']['gomod_reference'] = {'documents': len(gterms), 'inside_grammar_and_equal': len(gterms) - len(gbad), 'outside_grammar': gcount.get(8, 0)}
    # correspondence: walk models on the real CSTs vs the real parsers
    if proofs_ok and outs:
        lim = len(docs) if tier == 'thorough' else len(docs)
        bad, nev = P.correspondence(rep, PID, pairs[:lim], outs[:lim])
        if bad:
            i = sorted(bad)[0]
            rep.broke('correspondence Model.Walks / Model.GoMod vs the parsers', {'first_disagreement': {'format': docs[i].fmt, 'document': docs[i].text, 'impl': outs[i]['out']['pkgs'], 'code': bad[i]}, 'count': len(bad)})
        rep.cov['traces_validated_against_impl'] = nev - len(bad)
    rep.cov.update({'evaluations': len(outs), 'distinct_nontrivial': len({d.text for d in docs if d.declared}),
                    'rule': 'per format: abstract dependency lists (registry ranges, aliases, catalog/workspace/file/git/URL specifiers, renamed/path/workspace/registry crates, PEP 508 extras/markers/URLs, '
                            'hash-pinned and local/docker actions, require blocks with replace/exclude/retract) rendered under random layout choices (indentation, key order, separators, quoting style, '
                            'escapes, inline/expanded tables, comments, CRLF, non-ASCII text elsewhere, flow collections); non-trivial = distinct documents declaring at least one dependency'})
    rep.cov['streams']['parse'] = {'documents': len(outs), 'per_format': dict(by_fmt), 'set_equal_to_declared': nclean, 'metamorphic_group_members': nmeta}
    rep.cov['samples'] = [{'format': d.fmt, 'document': d.text[:400]} for d in docs[:2]]
    rep.assumptions = ['tree-sitter (grammars and runtime) is not modelled: the walks run on the CST dumped from the real parser for every document; wf_cst is evaluated on each tree',
                       'pep508_rs is an oracle (its recorded answers instantiate it)', 'the declared set is computed by the generator from the abstract list (a test oracle); the Coq reference (Spec) covers package.json, deno.json and go.mod']
    if tier == 'thorough' and proofs_ok:
        C.coqchk(rep, ['VL.Props.C04'])
    return rep.finish()
