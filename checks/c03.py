"""C03 - 'latest' is the registry's latest tag, else the highest stable cached version."""
import json
import random
from . import common as C
from . import cachelib as L

PID = 'C03'
PINS = C.load_pins('C03')
PROOF_FILES = ['Proofs/LatestProofs.v', 'Proofs/OrderProofs.v', 'Proofs/CacheProofs.v', 'Proofs/SemVerOrder.v', 'Proofs/GoOrderProofs.v', 'Proofs/ParseShow.v', 'Proofs/OfferedText.v', 'Props/C03.v']
IMPORTS = L.IMPORTS

SPELLINGS = ['1.2.3', 'v1.2.3', '1.2', '1', 'v1', '=1.2.3', '^1.2.3', '~1.2', '>=1.2.3', '<=1.2.3', '>1.2.3', '<1', '1.2.3-alpha', '1.2.3-alpha.1', '1.2.3-1',
             '1.2.3-alpha+b', '1.2.3+b', '1.2.3+a', '1.2.3+001', '1.2.3+1', '01.2.3', '1.02.3', '1.2.3-01', '1.2.3-0a', '1.2.3.4', '1.2.x', 'x', '', ' 1.2.3', '1.2.3 ',
             '18446744073709551615.0.0', '18446744073709551616.0.0', '1.2.3-', '1.2.3+', '1.2.3-a..b', '1.2.3-a.b.c', '2.0.0', '2.0.0-rc.1', '2.0.0-rc.10', '2.0.0-rc.2',
             '10.0.0', '9.9.9', '0.0.0', '0.0.0-0', '1.0.0-alpha', '1.0.0-alpha.1', '1.0.0-alpha.beta', '1.0.0-beta', '1.0.0-beta.2', '1.0.0-beta.11', '1.0.0-rc.1', '1.0.0',
             'vv1.2.3', '>=<1.2.3', 'v=1.2.3', '^~1.2.3', '1.2.3-é', 'é', '1.2.3-a_b', '+1.2.3', '1.+2.3', '1.2.3-x-y-z.--', '1.2.3+b.-.1']


def ver_obs(o):
    if o is None:
        return 'None'
    return f'(Some ({o["major"]}%N, {o["minor"]}%N, {o["patch"]}%N, {C.g_bytes(o["pre"])}, {C.g_bytes(o["build"])}, {C.g_bytes(o["show"])}))'


def semver_stream(rep, rnd, n):
    send = []
    for _ in range(n):
        a, b = rnd.choice(SPELLINGS), rnd.choice(SPELLINGS)
        avail = [rnd.choice(SPELLINGS) for _ in range(rnd.randrange(0, 7))]
        send.append({'a': a, 'b': b, 'avail': avail})
    cases, err = C.run_harness('semver', 0, 0, stdin='\n'.join(json.dumps(x) for x in send) + '\n')
    if err:
        rep.broke('harness semver', err)
    terms = []
    for c in cases or []:
        o = c['out']
        i = c['in']
        if o == 'panic':
            rep.violation(f'semver helpers panicked on {i}', {'input': i})
            continue
        terms.append(C.g_pair(C.g_bytes(i['a']), C.g_bytes(i['b']), '[' + '; '.join(C.g_bytes(x) for x in i['avail']) + ']',
                              ver_obs(o['parse_a']), ver_obs(o['lenient_a']), C.g_opt(o['cmp'], lambda x: f'{x}%N'), C.g_opt(o['eq'], C.g_bool), C.g_bool(o['is_pre_a']),
                              C.g_opt(o['patch'], C.g_bytes), C.g_opt(o['minor'], C.g_bytes), C.g_opt(o['major'], C.g_bytes)))
    bad, errs = C.coq_eval_verdicts(PID, 'semver', IMPORTS, 'semver_case', terms, 'semver_verdict')
    for e in errs:
        rep.broke('semver model evaluation failed', e)
    for k in sorted(bad)[:3]:
        rep.broke('correspondence Lib.SemVer / Model.SemverUtil vs the semver crate and src/version/semver.rs', cases[k])
    rep.cov['streams']['semver'] = {'cases': len(terms), 'disagreements': len(bad)}
    return len(terms)


def latest_cases(case):
    """(ignore_pre, cached latest tag, stored versions, implementation answer) for every latest read of a history"""
    st = {}
    out = []
    for i, (o, s) in enumerate(zip(case['in']['ops'], case['out']['steps'])):
        k = o['op']
        key = (o.get('reg'), o.get('name'))
        if k == 'store':
            e = st.setdefault(key, {'vs': [], 'tags': {}})
            for v in o['vs']:
                if v not in e['vs']:
                    e['vs'].append(v)
        elif k == 'tags' and o['m']:
            st.setdefault(key, {'vs': [], 'tags': {}})['tags'] = dict(o['m'])
        elif k == 'claim':
            st.setdefault(key, {'vs': [], 'tags': {}})
        elif k == 'latest':
            e0 = st.get(key, {'vs': [], 'tags': {}})
            e = {'vs': list(e0['vs']), 'tags': dict(e0['tags'])}
            ret = s['ret']
            if ret in ('err', 'panic', None):
                out.append((i, None, e, 'error'))
            else:
                out.append((i, o['ignore_pre'], e, ret['ok']))
    return out


def run(tier, seed):
    rep = C.Report(PID, tier, seed, 'proof')
    proofs_ok = C.standard_proof_phase(rep, ['detect', 'cache'], ['theories/Props/C03.vo', 'theories/Run/CacheRun.vo'], 'Props.C03',
                                       PINS['theorems'], PROOF_FILES, [], imports=PINS['imports'])
    hok, hlog = C.build_harness()
    if not hok:
        rep.broke('harness does not build against /repo', hlog[-1500:])
        return rep.finish()
    rnd = random.Random(seed)
    n, steps = (150, 45) if tier == 'quick' else (1500, 120)
    cases, err = C.run_harness('cache-seq', seed + 77, n, {'steps': steps}, timeout=3000)
    if err:
        rep.broke('harness stream cache-seq failed', err)
    cases = cases or []
    bad = L.run_corr(rep, PID, cases)
    for i, step in sorted(bad.items())[:3]:
        rep.broke('correspondence cache model vs real Cache', {'history_prefix': cases[i]['in']['ops'][:step + 1], 'impl': cases[i]['out']['steps'][step]})
    # property oracle on every latest read
    terms, meta = [], []
    for ci, c in enumerate(cases):
        for (i, ign, e, ret) in latest_cases(c):
            if ret == 'error':
                rep.violation('get_latest_version failed on a healthy cache', {'history': c['in']['ops'][:i + 1]})
                continue
            terms.append(C.g_pair(C.g_bool(ign), C.g_opt(e['tags'].get('latest'), C.g_bytes), '[' + '; '.join(C.g_bytes(v) for v in e['vs']) + ']', C.g_opt(ret, C.g_bytes)))
            meta.append((ci, i, ign, e, ret))
    badl, errs = C.coq_eval_verdicts(PID, 'latest', IMPORTS, 'latest_case', terms, 'latest_verdict')
    for e in errs:
        rep.broke('latest oracle evaluation failed', e)
    for k in sorted(badl)[:5]:
        ci, i, ign, e, ret = meta[k]
        rep.violation(f'get_latest_version returned {ret!r} with ignore_prerelease={ign}; cached latest tag {e["tags"].get("latest")!r}, stored versions {e["vs"]}',
                      {'history': cases[ci]['in']['ops'][:i + 1], 'impl': ret, 'stored_versions': e['vs'], 'tags': e['tags'], 'ignore_prerelease': ign})
    nsem = semver_stream(rep, rnd, 1500 if tier == 'quick' else 40000)
    nontriv = len({(tuple(m[3]['vs']), m[3]['tags'].get('latest'), m[2]) for m in meta if m[3]['vs']})
    rep.cov.update({'evaluations': len(terms) + nsem + sum(len(c['in']['ops']) for c in cases), 'distinct_nontrivial': nontriv,
                    'rule': 'latest reads inside random cache histories (stores in batches with duplicates, tag maps, reopen, several registries sharing names); '
                            'non-trivial = distinct (stored version list, latest tag, prerelease setting) with at least one stored version',
                    'traces_validated_against_impl': len(cases) - len(bad)})
    rep.cov['streams']['latest_reads'] = {'reads': len(terms), 'with_tag': sum(1 for m in meta if m[3]['tags'].get('latest') is not None),
                                          'answer_none': sum(1 for m in meta if m[4] is None)}
    rep.cov['samples'] = [{'ignore_prerelease': m[2], 'stored': m[3]['vs'], 'tags': m[3]['tags'], 'impl': m[4]} for m in meta if m[3]['vs']][:4]
    rep.assumptions = ['Lib.SemVer is a model of the third-party semver crate (parse, Ord, Display), tied by the semver stream',
                       'SQLite row order of get_versions is unspecified; the theorems are stated up to permutation of the stored list']
    if tier == 'thorough' and proofs_ok:
        C.coqchk(rep, ['VL.Props.C03'])
    return rep.finish()
