"""C10 - every fetch outcome is recorded correctly and always releases its claim."""
import itertools
import json
import random
from . import common as C
from . import cachelib as L

PID = 'C10'
PINS = C.load_pins('C10')
PROOF_FILES = ['Proofs/RefreshProofs.v', 'Proofs/CacheProofs.v', 'Props/C10.v']
IMPORTS = 'From VL Require Import Lib.Bytes Model.CacheDb Model.Refresh Spec.AbsCache Run.CacheRun Run.FetchRun.\nOpen Scope Z_scope.'
T = 30000
NOW = 1700000000000
SITES = ['claim', 'store', 'tags', 'mark', 'release']


def g_outcome(o):
    if o['kind'] == 'versions':
        return f'(OVersions [{"; ".join(L.gb(v) for v in o["vs"])}] [{"; ".join("(" + L.gb(a) + ", " + L.gb(b) + ")" for a, b in o["tags"])}])'
    if o['kind'] == 'not_found':
        return 'ONotFound'
    return 'OTransient'


def g_entry(e):
    f = e['faults']
    return f'({L.gb(e["name"])}, {g_outcome(e["outcome"])}, mkF {" ".join(C.g_bool(s in f) for s in SITES)})'


def g_prefill(reg, ops):
    out = []
    for o in ops:
        key = f'({L.gb(o["reg"])}, {L.gb(o["name"])})'
        if o['op'] == 'store':
            out.append(f'(OStore {key} [{"; ".join(L.gb(v) for v in o["vs"])}] {L.gz(o["now"])})')
        elif o['op'] == 'mark':
            out.append(f'(OMark {key})')
        elif o['op'] == 'claim':
            out.append(f'(OClaim {key} {L.gz(o["now"])})')
        elif o['op'] == 'tags':
            out.append(f'(OTags {key} [{"; ".join("(" + L.gb(a) + ", " + L.gb(b) + ")" for a, b in o["m"])}] {L.gz(o["now"])})')
    return '[' + '; '.join(out) + ']'


OUTCOMES = [
    {'kind': 'versions', 'vs': ['1.0.0', '1.1.0'], 'tags': [['latest', '1.1.0']]},
    {'kind': 'versions', 'vs': ['2.0.0'], 'tags': []},
    {'kind': 'versions', 'vs': [], 'tags': []},
    {'kind': 'not_found'},
    {'kind': 'rate_limited'},
    {'kind': 'invalid'},
]


def gen_cases(rnd, tier):
    cases = []
    reg = 'npm'
    # exhaustive: every outcome x a fault at each call site (and none), for a missing, a stale-claimed and a live-claimed package
    for oc in OUTCOMES:
        for fault in [None] + SITES:
            for state in ('missing', 'claimed_live', 'claimed_expired', 'cached', 'marked'):
                prefill = []
                if state == 'claimed_live':
                    prefill = [{'op': 'claim', 'reg': reg, 'name': 'a', 'now': NOW - 1000}]
                elif state == 'claimed_expired':
                    prefill = [{'op': 'claim', 'reg': reg, 'name': 'a', 'now': NOW - T - 1}]
                elif state == 'cached':
                    prefill = [{'op': 'store', 'reg': reg, 'name': 'a', 'vs': ['0.9.0'], 'now': NOW - 90000000}]
                elif state == 'marked':
                    prefill = [{'op': 'claim', 'reg': reg, 'name': 'a', 'now': NOW - 90000000}, {'op': 'mark', 'reg': reg, 'name': 'a'}]
                for mode in ('missing', 'refresh'):
                    batch = [{'name': 'a', 'outcome': oc, 'faults': [fault] if fault else []},
                             {'name': 'b', 'outcome': OUTCOMES[1], 'faults': []}]
                    cases.append({'reg': reg, 'now': NOW, 'mode': mode, 'filter_fails': False, 'prefill': prefill, 'batch': batch})
    n = 150 if tier == 'quick' else 6000
    names = ['a', 'b', 'c', "d'", 'é']
    for _ in range(n):
        reg = rnd.choice(['npm', 'crates_io', 'github_actions'])
        prefill = []
        for nm in names:
            k = rnd.random()
            if k < 0.15:
                prefill.append({'op': 'store', 'reg': reg, 'name': nm, 'vs': ['0.1.0'], 'now': NOW - rnd.choice([1000, 90000000])})
            elif k < 0.3:
                prefill.append({'op': 'claim', 'reg': reg, 'name': nm, 'now': NOW - rnd.choice([1, 29999, 30000, 30001, 90000000])})
            elif k < 0.4:
                prefill += [{'op': 'claim', 'reg': reg, 'name': nm, 'now': NOW - 90000000}, {'op': 'mark', 'reg': reg, 'name': nm}]
            elif k < 0.45:
                prefill.append({'op': 'store', 'reg': rnd.choice(['npm', 'jsr']), 'name': nm, 'vs': ['7.0.0'], 'now': NOW - 5})
        batch = []
        for _ in range(rnd.choice([1, 2, 3, 4])):
            nm = rnd.choice(names)
            faults = [s for s in SITES if rnd.random() < 0.12]
            batch.append({'name': nm, 'outcome': rnd.choice(OUTCOMES), 'faults': faults})
        # the fault set is per (call site, name): duplicates of a name share it
        byname = {}
        for e in batch:
            byname.setdefault(e['name'], set()).update(e['faults'])
        for e in batch:
            e['faults'] = sorted(byname[e['name']])
        cases.append({'reg': reg, 'now': NOW, 'mode': rnd.choice(['missing', 'missing', 'refresh']), 'filter_fails': rnd.random() < 0.05, 'prefill': prefill, 'batch': batch})
    return cases


def oracle(c):
    """the property, on the implementation's own observations (python rendering of the abstract pipeline)"""
    i, o = c['in'], c['out']
    bad = []
    reg = i['reg']
    before = {(r[1], r[2]): r for r in o['before']['pk']}
    after = {(r[1], r[2]): r for r in o['after']['pk']}
    vers_b = {}
    for pid, v in o['before']['vs']:
        vers_b.setdefault(pid, set()).add(v)
    vers_a = {}
    for pid, v in o['after']['vs']:
        vers_a.setdefault(pid, set()).add(v)
    calls = o['calls']
    requested = list(o['requested'])
    by_name = {}
    for e in i['batch']:
        by_name.setdefault(e['name'], []).append(e)
    for name, entries in by_name.items():
        key = (reg, name)
        rb, ra = before.get(key), after.get(key)
        faults = set(entries[0]['faults'])
        # released on return: no claim taken by this run may be left, unless the release call itself failed
        took = any(cl == ['claim', name] for cl in calls) and name in requested
        if took and 'release' not in faults and ra is not None and ra[4] == i['now']:
            bad.append(f'package {name}: the claim taken by the routine was not released')
        # the routine releases ITS claim: a package it did not request (claim refused: somebody else is fetching it)
        # keeps the other fetcher's claim
        if name not in requested and rb is not None and rb[4] is not None and ra is not None and ra[4] != rb[4]:
            bad.append(f'package {name}: not requested by this run (claimed by another fetcher since {rb[4]}), yet that claim was released / changed (fetching_since {rb[4]} -> {ra[4]})')
        # marked nonexistent only for a definitive not-found
        newly_marked = ra is not None and ra[5] == 1 and (rb is None or rb[5] == 0)
        nf_requested = [e for e in entries if e['outcome']['kind'] == 'not_found']
        if newly_marked and not nf_requested:
            bad.append(f'package {name}: marked nonexistent although the registry never said so (outcomes {[e["outcome"]["kind"] for e in entries]})')
        # ... and whenever the registry said so (and the cache accepted the mark)
        if requested.count(name) == 1 and len(entries) == 1 and entries[0]['outcome']['kind'] == 'not_found' and not ({'mark', 'claim'} & faults):
            if ra is None or ra[5] != 1:
                bad.append(f'package {name}: the registry said it does not exist, but it is not marked nonexistent (row {ra})')
        # versions stored only if returned by the registry
        vb = vers_b.get(rb[0], set()) if rb else set()
        va = vers_a.get(ra[0], set()) if ra else set()
        returned = set()
        for e in entries:
            if e['outcome']['kind'] == 'versions':
                returned |= set(e['outcome']['vs'])
        if not vb <= va:
            bad.append(f'package {name}: stored versions were lost')
        if not (va - vb) <= returned:
            bad.append(f'package {name}: versions {sorted(va - vb)} stored that the registry did not return')
        if requested.count(name) == 1 and entries[0]['outcome']['kind'] == 'versions' and 'store' not in faults and len(entries) == 1:
            if not set(entries[0]['outcome']['vs']) <= va:
                bad.append(f'package {name}: the registry returned versions and the cache accepted them, but they are not stored')
    # only missing packages are requested on demand
    if i['mode'] == 'missing':
        for name in requested:
            rb = before.get((reg, name))
            if rb is not None and (rb[5] == 1 or vers_b.get(rb[0])):
                bad.append(f'package {name} was requested although it is cached or marked nonexistent')
        # reported as fetched exactly those whose versions were stored
        for name in o['ret']:
            if name not in requested:
                bad.append(f'package {name} reported as fetched but never requested')
        for name, entries in by_name.items():
            if len(entries) == 1 and name in requested and entries[0]['outcome']['kind'] == 'versions' and 'store' not in set(entries[0]['faults']) and name not in o['ret']:
                bad.append(f'package {name}: versions stored but not reported as fetched (returned {o["ret"]})')
    # other keys untouched
    names = set(by_name)
    for key, rb in before.items():
        if not (key[0] == reg and key[1] in names):
            if after.get(key) != rb:
                bad.append(f'package {key} outside the batch was modified')
    return bad


def run(tier, seed):
    rep = C.Report(PID, tier, seed, 'proof')
    proofs_ok = C.standard_proof_phase(rep, ['detect', 'cache'], ['theories/Props/C10.vo', 'theories/Run/FetchRun.vo'], 'Props.C10', PINS['theorems'], PROOF_FILES, [], imports=PINS['imports'])
    hok, hlog = C.build_harness()
    if not hok:
        rep.broke('harness does not build against /repo', hlog[-1500:])
        return rep.finish()
    rnd = random.Random(seed)
    send = gen_cases(rnd, tier)
    cases, err = C.run_harness('fetch', 0, 0, stdin='\n'.join(json.dumps(x) for x in send) + '\n', timeout=3000)
    if err:
        rep.broke('harness fetch', err)
    cases = cases or []
    terms = []
    for c in cases:
        i, o = c['in'], c['out']
        terms.append(C.g_pair(L.gb(i['reg']), L.gz(i['now']), C.g_bool(i['mode'] == 'missing'), C.g_bool(i['filter_fails']), g_prefill(i['reg'], i['prefill']),
                              '[' + '; '.join(g_entry(e) for e in i['batch']) + ']',
                              '[' + '; '.join(L.gb(n) for n in o['requested']) + ']',
                              '[' + '; '.join(L.gb(n) for n in (o['ret'] or [])) + ']', L.g_snap(o['after'])))
    bad, errs = C.coq_eval_verdicts(PID, 'fetch', IMPORTS, 'fetch_case', terms, 'fetch_corr')
    for e in errs:
        rep.broke('fetch model evaluation failed', e)
    for k in sorted(bad)[:3]:
        rep.broke('correspondence Model.Refresh vs refresh.rs', {'input': cases[k]['in'], 'impl': {x: cases[k]['out'][x] for x in ('ret', 'requested', 'calls', 'after')}})
    for c in cases:
        for msg in oracle(c)[:1]:
            rep.violation(f'fetch pipeline: {msg}', {'input': c['in'], 'impl': {x: c['out'][x] for x in ('ret', 'requested', 'calls', 'before', 'after')}})
    kinds = {}
    for c in cases:
        for e in c['in']['batch']:
            kk = e['outcome']['kind'] + ('+' + '+'.join(e['faults']) if e['faults'] else '')
            kinds[kk] = kinds.get(kk, 0) + 1
    rep.cov.update({'evaluations': len(cases), 'distinct_nontrivial': len(kinds),
                    'rule': 'exhaustive product (6 registry outcomes) x (no fault / a fault at each of the 5 storer call sites) x (missing, claimed live, claimed expired, cached, marked) '
                            'x (on-demand, refresh) with a second healthy package in the batch; then random batches with duplicates, several faults, other registries holding the name; '
                            'distinct = (outcome, fault set) combinations',
                    'traces_validated_against_impl': len(cases) - len(bad)})
    rep.cov['streams']['fetch'] = {'cases': len(cases), 'entry_kinds': len(kinds)}
    rep.cov['samples'] = [{'in': c['in']['batch'], 'requested': c['out']['requested'], 'ret': c['out']['ret']} for c in cases[:3]]
    rep.assumptions = ['a failing storer call has no effect (each cache method is atomic: C11)',
                       'the registry answers without suspending, so the staggered pipelines of one batch run one after the other; pipelines of different packages touch different keys (C10_isolated, C08_isolated)',
                       'RegistryError::Network cannot be constructed outside reqwest; it takes the same catch-all branch as RateLimited / InvalidResponse']
    if tier == 'thorough' and proofs_ok:
        C.coqchk(rep, ['VL.Props.C10'])
    return rep.finish()
