//! C04 / C05 / C06 (parser level): the seven real parsers on documents from stdin, with the real
//! tree-sitter CST of each document (the same grammar crates and runtime as the parsers use).
//! stdin: {"fmt": "package_json|deno_json|cargo_toml|pyproject_toml|pnpm_workspace|github_actions|go_mod", "text": "..."}
//! out: {"cst": [kind, field, sb, eb, row, col, missing, [children]] | null, "pkgs": [...] | "panic", "pep508": [[string, parsed]...]}
use crate::{Args, emit};
use serde_json::{Value, json};
use std::io::BufRead;
use std::str::FromStr;
use version_lsp::parser::traits::Parser;
use version_lsp::parser::types::{ExtraInfo, PackageInfo};

pub fn parser_for(fmt: &str) -> Box<dyn Parser> {
    use version_lsp::parser::*;
    match fmt {
        "package_json" => Box::new(package_json::PackageJsonParser::new()),
        "deno_json" => Box::new(deno_json::DenoJsonParser::new()),
        "cargo_toml" => Box::new(cargo_toml::CargoTomlParser::new()),
        "pyproject_toml" => Box::new(pyproject_toml::PyprojectTomlParser::new()),
        "pnpm_workspace" => Box::new(pnpm_workspace::PnpmWorkspaceParser),
        "github_actions" => Box::new(github_actions::GitHubActionsParser::new()),
        "go_mod" => Box::new(go_mod::GoModParser::new()),
        other => panic!("unknown format {other}"),
    }
}

fn language(fmt: &str) -> Option<tree_sitter::Language> {
    match fmt {
        "package_json" | "deno_json" => Some(tree_sitter_json::LANGUAGE.into()),
        "cargo_toml" | "pyproject_toml" => Some(tree_sitter_toml_ng::LANGUAGE.into()),
        "pnpm_workspace" | "github_actions" => Some(tree_sitter_yaml::LANGUAGE.into()),
        _ => None,
    }
}

fn dump(cursor: &mut tree_sitter::TreeCursor) -> Value {
    let n = cursor.node();
    let field = cursor.field_name().unwrap_or("");
    let mut kids = Vec::new();
    if cursor.goto_first_child() {
        loop {
            kids.push(dump(cursor));
            if !cursor.goto_next_sibling() {
                break;
            }
        }
        cursor.goto_parent();
    }
    json!([n.kind(), field, n.start_byte(), n.end_byte(), n.start_position().row, n.start_position().column, n.is_missing(), kids])
}

pub fn cst_of(fmt: &str, text: &str) -> Value {
    let Some(lang) = language(fmt) else { return Value::Null };
    let mut p = tree_sitter::Parser::new();
    p.set_language(&lang).expect("language");
    match p.parse(text, None) {
        Some(tree) => dump(&mut tree.walk()),
        None => Value::Null,
    }
}

pub fn pkg_json(p: &PackageInfo) -> Value {
    let extra = match &p.extra_info {
        Some(ExtraInfo::GitHubActions { comment_text, comment_start_offset, comment_end_offset }) => json!([comment_text, comment_start_offset, comment_end_offset]),
        None => Value::Null,
    };
    json!({"name": p.name, "version": p.version, "hash": p.commit_hash, "start": p.start_offset, "end": p.end_offset, "line": p.line, "col": p.column, "extra": extra})
}

/// every TOML string of the document (inner text as the pyproject parser cuts it) with pep508_rs's reading of it
fn pep508_tape(cst: &Value, text: &str, out: &mut Vec<Value>) {
    let Some(a) = cst.as_array() else { return };
    if a[0] == "string" {
        let (sb, eb) = (a[2].as_u64().unwrap() as usize, a[3].as_u64().unwrap() as usize);
        if let Some(t) = text.get(sb..eb) {
            let trimmed = t.trim();
            let inner = if trimmed.len() >= 2 && ((trimmed.starts_with('"') && trimmed.ends_with('"')) || (trimmed.starts_with('\'') && trimmed.ends_with('\''))) {
                &trimmed[1..trimmed.len() - 1]
            } else {
                trimmed
            };
            let parsed = std::panic::catch_unwind(|| match pep508_rs::Requirement::<pep508_rs::VerbatimUrl>::from_str(inner) {
                Ok(r) => match &r.version_or_url {
                    Some(pep508_rs::VersionOrUrl::Url(_)) => json!({"name": r.name.to_string(), "url": true}),
                    Some(pep508_rs::VersionOrUrl::VersionSpecifier(s)) => json!({"name": r.name.to_string(), "spec": s.to_string()}),
                    None => json!({"name": r.name.to_string(), "spec": ""}),
                },
                Err(_) => json!("err"),
            })
            .unwrap_or(json!("panic"));
            out.push(json!([inner, parsed]));
        }
    }
    for k in a[7].as_array().unwrap() {
        pep508_tape(k, text, out);
    }
}

pub fn run(_args: &Args) {
    let stdin = std::io::stdin();
    for line in stdin.lock().lines() {
        let line = line.unwrap();
        if line.trim().is_empty() {
            continue;
        }
        let v: Value = serde_json::from_str(&line).expect("json");
        let fmt = v["fmt"].as_str().unwrap();
        let text = v["text"].as_str().unwrap();
        let parser = parser_for(fmt);
        let pkgs = match std::panic::catch_unwind(std::panic::AssertUnwindSafe(|| parser.parse(text))) {
            Ok(Ok(ps)) => Value::Array(ps.iter().map(pkg_json).collect()),
            Ok(Err(e)) => json!({"err": e.to_string()}),
            Err(_) => json!("panic"),
        };
        let cst = if v["nocst"].as_bool().unwrap_or(false) { Value::Null } else { cst_of(fmt, text) };
        let mut tape = Vec::new();
        if fmt == "pyproject_toml" {
            pep508_tape(&cst, text, &mut tape);
        }
        emit(json!({"fmt": fmt}), json!({"cst": cst, "pkgs": pkgs, "pep508": tape}));
    }
}
