//! PyPI matcher with the PEP 440 oracle answers recorded from pep440_rs.
//! stdin: {"spec": "...", "base": "...", "versions": ["..."]}
use crate::{Args, emit};
use pep508_rs::pep440_rs::{Version, VersionSpecifiers};
use serde_json::{Value, json};
use std::io::BufRead;
use std::panic::{AssertUnwindSafe, catch_unwind};
use std::str::FromStr;
use version_lsp::version::matcher::VersionMatcher;
use version_lsp::version::matchers::PypiVersionMatcher;

pub fn run(_args: &Args) {
    let stdin = std::io::stdin();
    for line in stdin.lock().lines() {
        let line = line.unwrap();
        if line.trim().is_empty() {
            continue;
        }
        let v: Value = serde_json::from_str(&line).expect("json case");
        let spec = v["spec"].as_str().unwrap().to_string();
        let base = v["base"].as_str().unwrap().to_string();
        let versions: Vec<String> = v["versions"].as_array().unwrap().iter().map(|x| x.as_str().unwrap().to_string()).collect();
        let m = PypiVersionMatcher;
        let r = catch_unwind(AssertUnwindSafe(|| {
            let specs = VersionSpecifiers::from_str(&spec).ok();
            let basev = Version::from_str(&base).ok();
            let mut obs = vec![];
            for x in &versions {
                let xv = Version::from_str(x).ok();
                let contains = match (&specs, &xv) { (Some(s), Some(xv)) => s.contains(xv), _ => false };
                let base_le = match (&basev, &xv) { (Some(b), Some(xv)) => b <= xv, _ => false };
                obs.push(json!({"v": x, "ver_ok": xv.is_some(), "contains": contains, "base_le": base_le,
                    "exists": m.version_exists(&spec, std::slice::from_ref(x)),
                    "compare": crate::matchers::cr_code(m.compare_to_latest(&spec, x))}));
            }
            json!({"specs_ok": specs.is_some(), "base_ok": basev.is_some(), "obs": obs,
                   "exists_all": m.version_exists(&spec, &versions), "exists_none": m.version_exists(&spec, &[])})
        }));
        match r {
            Ok(out) => emit(v, out),
            Err(_) => emit(v, json!("panic")),
        }
    }
}
