//! C15 / C17: the six registry adapters (and fetch_tag_sha) against a scripted local HTTP server.
//! stdin: one script per line
//!   {"adapter": "npm|crates|go|github|jsr|pypi|github_tags", "name": "...", "tag": "...",
//!    "pages": [{"status": 200, "headers": [["k","v"]], "body": "..."}], "down": false, "ts": ["..."]}
//! The k-th page is served to a request whose query contains page=k (page 1 otherwise); "{base}" in header
//! values is replaced by the server's URL.  Output: the adapter's result, every request target the server
//! saw, and chrono's reading of each timestamp string (the oracle tape of the model).
use crate::{Args, emit};
use serde_json::{Value, json};
use std::io::{BufRead, Read, Write};
use std::net::TcpListener;
use std::sync::{Arc, Mutex};
use version_lsp::version::error::RegistryError;
use version_lsp::version::registries::github::TagShaFetcher;
use version_lsp::version::registries::*;
use version_lsp::version::registry::Registry;

#[derive(Default)]
struct Script {
    pages: Vec<(u16, Vec<(String, String)>, Vec<u8>)>,
    seen: Vec<Value>,
}

fn serve(listener: TcpListener, script: Arc<Mutex<Script>>, base: String) {
    for conn in listener.incoming() {
        let Ok(mut s) = conn else { continue };
        let mut buf = Vec::new();
        let mut tmp = [0u8; 4096];
        while !buf.windows(4).any(|w| w == b"\r\n\r\n") {
            match s.read(&mut tmp) {
                Ok(0) | Err(_) => break,
                Ok(n) => buf.extend_from_slice(&tmp[..n]),
            }
        }
        let head = String::from_utf8_lossy(&buf).to_string();
        let mut lines = head.split("\r\n");
        let reqline = lines.next().unwrap_or("").to_string();
        let target = reqline.split(' ').nth(1).unwrap_or("").to_string();
        let method = reqline.split(' ').next().unwrap_or("").to_string();
        let mut hdrs = serde_json::Map::new();
        for l in lines {
            if let Some((k, v)) = l.split_once(':') {
                let k = k.trim().to_ascii_lowercase();
                if k == "accept" || k == "user-agent" {
                    hdrs.insert(k, json!(v.trim()));
                }
            }
        }
        let (status, headers, body) = {
            let mut sc = script.lock().unwrap();
            sc.seen.push(json!({"method": method, "target": target, "headers": hdrs}));
            let page = target
                .split(['?', '&'])
                .find_map(|kv| kv.strip_prefix("page=").and_then(|p| p.parse::<usize>().ok()))
                .unwrap_or(1);
            match sc.pages.get(page.saturating_sub(1)) {
                Some(p) => p.clone(),
                None => (404, vec![], b"{}".to_vec()),
            }
        };
        let mut out = format!("HTTP/1.1 {} X\r\nConnection: close\r\nContent-Length: {}\r\n", status, body.len()).into_bytes();
        for (k, v) in headers {
            out.extend_from_slice(format!("{}: {}\r\n", k, v.replace("{base}", &base)).as_bytes());
        }
        out.extend_from_slice(b"\r\n");
        out.extend_from_slice(&body);
        let _ = s.write_all(&out);
        let _ = s.flush();
    }
}

fn err_json(e: &RegistryError) -> Value {
    match e {
        RegistryError::NotFound(_) => json!("not_found"),
        RegistryError::RateLimited { retry_after_secs } => json!({"rate_limited": retry_after_secs.map(|x| x.to_string())}),
        RegistryError::Network(_) => json!({"transient": "network"}),
        RegistryError::InvalidResponse(_) => json!({"transient": "invalid"}),
    }
}

pub fn run(_args: &Args) {
    let listener = TcpListener::bind("127.0.0.1:0").expect("bind");
    let port = listener.local_addr().unwrap().port();
    let base = format!("http://127.0.0.1:{}", port);
    let script = Arc::new(Mutex::new(Script::default()));
    {
        let (sc, b) = (script.clone(), base.clone());
        std::thread::spawn(move || serve(listener, sc, b));
    }
    // a port nobody listens on
    let dead = {
        let l = TcpListener::bind("127.0.0.1:0").unwrap();
        let p = l.local_addr().unwrap().port();
        drop(l);
        format!("http://127.0.0.1:{}", p)
    };
    let rt = tokio::runtime::Builder::new_current_thread().enable_all().build().unwrap();
    let mk = |b: &str| -> (Vec<(&'static str, Box<dyn Registry>)>, GitHubRegistry) {
        (
            vec![
                ("npm", Box::new(NpmRegistry::new(b)) as Box<dyn Registry>),
                ("crates", Box::new(CratesIoRegistry::new(b))),
                ("go", Box::new(GoProxyRegistry::new(b))),
                ("github", Box::new(GitHubRegistry::new(b))),
                ("jsr", Box::new(JsrRegistry::new(b))),
                ("pypi", Box::new(PypiRegistry::new(b.to_string()))),
            ],
            GitHubRegistry::new(b),
        )
    };
    let (live, live_gh) = mk(&base);
    let (down, down_gh) = mk(&dead);
    let stdin = std::io::stdin();
    for line in stdin.lock().lines() {
        let line = line.unwrap();
        if line.trim().is_empty() {
            continue;
        }
        let v: Value = serde_json::from_str(&line).expect("json");
        let adapter = v["adapter"].as_str().unwrap().to_string();
        let name = v["name"].as_str().unwrap().to_string();
        let is_down = v["down"].as_bool().unwrap_or(false);
        {
            let mut sc = script.lock().unwrap();
            sc.seen.clear();
            sc.pages = v["pages"]
                .as_array()
                .map(|ps| {
                    ps.iter()
                        .map(|p| {
                            let body = match p.get("body_hex").and_then(|h| h.as_str()) {
                                Some(h) => (0..h.len() / 2).map(|i| u8::from_str_radix(&h[2 * i..2 * i + 2], 16).unwrap()).collect(),
                                None => p["body"].as_str().unwrap_or("").as_bytes().to_vec(),
                            };
                            let hs = p["headers"]
                                .as_array()
                                .map(|hs| hs.iter().map(|h| (h[0].as_str().unwrap().to_string(), h[1].as_str().unwrap().to_string())).collect())
                                .unwrap_or_default();
                            (p["status"].as_u64().unwrap_or(200) as u16, hs, body)
                        })
                        .collect()
                })
                .unwrap_or_default();
        }
        let (regs, gh) = if is_down { (&down, &down_gh) } else { (&live, &live_gh) };
        let out = std::panic::catch_unwind(std::panic::AssertUnwindSafe(|| {
            rt.block_on(async {
                let fut = async {
                    if adapter == "github_tags" {
                        match gh.fetch_tag_sha(&name, v["tag"].as_str().unwrap_or("")).await {
                            Ok(s) => json!({"sha": s}),
                            Err(e) => err_json(&e),
                        }
                    } else {
                        let r = regs.iter().find(|(k, _)| *k == adapter).expect("adapter");
                        match r.1.fetch_all_versions(&name).await {
                            Ok(pv) => {
                                let mut tags: Vec<(String, String)> = pv.dist_tags.into_iter().collect();
                                tags.sort();
                                json!({"ok": {"versions": pv.versions, "tags": tags}})
                            }
                            Err(e) => err_json(&e),
                        }
                    }
                };
                match tokio::time::timeout(std::time::Duration::from_secs(20), fut).await {
                    Ok(x) => x,
                    Err(_) => json!("hang"),
                }
            })
        }))
        .unwrap_or(json!("panic"));
        let seen = script.lock().unwrap().seen.clone();
        let ts: Vec<Value> = v["ts"]
            .as_array()
            .map(|a| {
                a.iter()
                    .map(|s| {
                        let s = s.as_str().unwrap_or("");
                        let p = chrono::DateTime::parse_from_rfc3339(s).ok().map(|d| {
                            let u = d.with_timezone(&chrono::Utc);
                            (u.timestamp() as i128 * 1_000_000_000 + u.timestamp_subsec_nanos() as i128).to_string()
                        });
                        json!([s, p])
                    })
                    .collect()
            })
            .unwrap_or_default();
        emit(json!({"adapter": adapter, "name": name}), json!({"result": out, "requests": seen, "ts": ts}));
    }
}
