//! C09: deterministic statement-level schedules of claim attempts from several Cache handles
//! (one thread per handle) on one database file, realised with the statement-point hook:
//! a claimant whose UPDATE changed no row parks between its two statements until resumed.
use crate::cacheseq::{NAMES, REGS, raw_tables};
use crate::rng::Rng;
use crate::{Args, emit};
use serde_json::{Value, json};
use std::cell::RefCell;
use std::sync::mpsc::{Receiver, Sender, channel};
use version_lsp::parser::types::RegistryType;
use version_lsp::version::cache::{Cache, verif_hooks};
use version_lsp::version::checker::VersionStorer;

enum ToMain { Parked(usize), Done(usize, Option<bool>) }
enum ToWorker { Claim(RegistryType, String), Quit }

thread_local! {
    static WORKER: RefCell<Option<(usize, Sender<ToMain>, Receiver<()>)>> = const { RefCell::new(None) };
}

pub fn run(args: &Args) {
    verif_hooks::set_point_handler(Some(Box::new(|f, k| {
        if f == "try_start_fetch" && k == 1 {
            WORKER.with(|w| {
                if let Some((id, tx, go)) = w.borrow().as_ref() {
                    tx.send(ToMain::Parked(*id)).unwrap();
                    go.recv().unwrap();
                }
            });
        }
        false
    })));
    for case in 0..args.n {
        let mut r = Rng::new(args.seed.wrapping_mul(7_000_003).wrapping_add(case as u64));
        let dir = tempfile::TempDir::new().unwrap();
        let path = dir.path().join("versions.db");
        let mut now: i64 = 1_700_000_000_000;
        verif_hooks::set_clock(Some(now));
        let main_cache = Cache::new(&path, 86_400_000, true).unwrap();
        let nworkers = 2 + r.below(2);
        let (to_main, from_workers) = channel::<ToMain>();
        let mut cmd_tx = vec![];
        let mut go_tx = vec![];
        let mut joins = vec![];
        for id in 0..nworkers {
            let (ctx, crx) = channel::<ToWorker>();
            let (gtx, grx) = channel::<()>();
            let tm = to_main.clone();
            let p = path.clone();
            joins.push(std::thread::spawn(move || {
                let cache = Cache::new(&p, 86_400_000, true).unwrap();
                WORKER.with(|w| *w.borrow_mut() = Some((id, tm.clone(), grx)));
                while let Ok(ToWorker::Claim(reg, name)) = crx.recv() {
                    let res = cache.try_start_fetch(reg, &name).ok();
                    tm.send(ToMain::Done(id, res)).unwrap();
                }
            }));
            cmd_tx.push(ctx);
            go_tx.push(gtx);
        }
        let keys: Vec<(RegistryType, String)> = (0..1 + r.below(2)).map(|_| (*r.pick(&REGS), r.pick(NAMES).to_string())).collect();
        let mut steps = vec![];
        let mut outs = vec![];
        let mut parked: Vec<Option<(RegistryType, String)>> = vec![None; nworkers];
        let nsteps = 6 + r.below(14);
        for _ in 0..nsteps {
            let (reg, name) = keys[r.below(keys.len())].clone();
            let kind = r.below(100);
            let idle: Vec<usize> = (0..nworkers).filter(|i| parked[*i].is_none()).collect();
            let waiting: Vec<usize> = (0..nworkers).filter(|i| parked[*i].is_some()).collect();
            if kind < 38 && !idle.is_empty() {
                let h = *r.pick(&idle);
                cmd_tx[h].send(ToWorker::Claim(reg, name.clone())).unwrap();
                let res = match from_workers.recv().unwrap() {
                    ToMain::Parked(id) => { assert_eq!(id, h); parked[h] = Some((reg, name.clone())); json!("parked") }
                    ToMain::Done(id, res) => { assert_eq!(id, h); json!(res) }
                };
                steps.push(json!({"op": "claim1", "h": h, "reg": reg.as_str(), "name": name, "now": now}));
                outs.push(json!({"ret": res, "db": raw_tables(&path)}));
            } else if kind < 62 && !waiting.is_empty() {
                let h = *r.pick(&waiting);
                go_tx[h].send(()).unwrap();
                let res = match from_workers.recv().unwrap() {
                    ToMain::Done(id, res) => { assert_eq!(id, h); json!(res) }
                    ToMain::Parked(_) => panic!("parked twice"),
                };
                parked[h] = None;
                steps.push(json!({"op": "claim2", "h": h}));
                outs.push(json!({"ret": res, "db": raw_tables(&path)}));
            } else if kind < 72 {
                let ok = main_cache.finish_fetch(reg, &name).is_ok();
                steps.push(json!({"op": "release", "reg": reg.as_str(), "name": name}));
                outs.push(json!({"ret": ok, "db": raw_tables(&path)}));
            } else if kind < 80 {
                let vs = vec!["1.0.0".to_string()];
                let ok = main_cache.replace_versions(reg, &name, vs.clone()).is_ok();
                steps.push(json!({"op": "store", "reg": reg.as_str(), "name": name, "vs": vs, "now": now}));
                outs.push(json!({"ret": ok, "db": raw_tables(&path)}));
            } else {
                now += *r.pick(&[1i64, 29_999, 30_000, 30_001, 29_998, 15_000, 60_000, 0, 2, -1, -2, -30_001]);    // the clock may step back
                verif_hooks::set_clock(Some(now));
            }
        }
        // handles still parked are "dead owners" for the purpose of the trace; let their threads finish
        // only after the last snapshot was taken
        for h in 0..nworkers {
            if parked[h].is_some() {
                steps.push(json!({"op": "die", "h": h}));
                outs.push(json!({"ret": true, "db": raw_tables(&path)}));
            }
        }
        for h in 0..nworkers {
            if parked[h].is_some() {
                go_tx[h].send(()).unwrap();
                let _ = from_workers.recv();
            }
            let _ = cmd_tx[h].send(ToWorker::Quit);
        }
        for j in joins { let _ = j.join(); }
        emit(json!({"ops": steps}), json!({"steps": outs}));
    }
    verif_hooks::set_clock(None);
    verif_hooks::set_point_handler(None);
}
