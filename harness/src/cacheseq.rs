//! C03/C08/C09: random operation histories on a real Cache file (1-3 handles,
//! reopen anywhere, virtual clock).  After every step: the return value of the
//! step and the raw tables read through an independent rusqlite connection.
use crate::rng::Rng;
use crate::{Args, emit};
use serde_json::{Value, json};
use std::collections::HashMap;
use std::panic::{AssertUnwindSafe, catch_unwind};
use version_lsp::parser::types::RegistryType;
use version_lsp::version::cache::{Cache, verif_hooks};
use version_lsp::version::checker::VersionStorer;

pub const REGS: [RegistryType; 4] = [RegistryType::Npm, RegistryType::CratesIo, RegistryType::PnpmCatalog, RegistryType::GitHubActions];
pub const NAMES: &[&str] = &["a", "b", "A", "a b", "", "a'b", "a\"b;--", "%", "_", "a%", "é", "a\u{0}b", "x/y", "@s/p"];
pub const VERSIONS: &[&str] = &["1.0.0", "1.2.3", "v1.2.3", "2.0.0-beta.1", "2.0.0", "1.0", "1", "10.0.0", "1.0.0+b", "garbage", "",
    "3.0.0-rc.1", "0.0.0-20210101000000-abcdefabcdef", "v2.0.0+incompatible", "2.0.0-alpha", "9.9.9-0", "1.2.3+b2", "01.0.0", "=2.0.0", "2.0", "10.1.0+build-7", "v11.0.0+sha-4d5e6f7", "11.0.0-rc.1+x-y"];
pub const TAGS: &[&str] = &["latest", "next", "beta", "Latest", "", "x"];

pub fn raw_tables(path: &std::path::Path) -> Value {
    let conn = rusqlite::Connection::open_with_flags(path, rusqlite::OpenFlags::SQLITE_OPEN_READ_ONLY).unwrap();
    let mut pk = vec![];
    {
        let mut st = conn.prepare("SELECT id, registry_type, package_name, updated_at, fetching_since, not_found FROM packages ORDER BY id").unwrap();
        let rows = st.query_map([], |r| {
            Ok(json!([r.get::<_, i64>(0)?, r.get::<_, String>(1)?, r.get::<_, String>(2)?, r.get::<_, i64>(3)?, r.get::<_, Option<i64>>(4)?, r.get::<_, i64>(5)?]))
        }).unwrap();
        for r in rows { pk.push(r.unwrap()); }
    }
    let mut vs: Vec<(i64, String)> = vec![];
    {
        let mut st = conn.prepare("SELECT package_id, version FROM versions").unwrap();
        let rows = st.query_map([], |r| Ok((r.get::<_, i64>(0)?, r.get::<_, String>(1)?))).unwrap();
        for r in rows { vs.push(r.unwrap()); }
    }
    vs.sort_by(|a, b| (a.0, a.1.as_bytes()).cmp(&(b.0, b.1.as_bytes())));
    let mut tg: Vec<(i64, String, String)> = vec![];
    {
        let mut st = conn.prepare("SELECT package_id, tag_name, version FROM dist_tags").unwrap();
        let rows = st.query_map([], |r| Ok((r.get::<_, i64>(0)?, r.get::<_, String>(1)?, r.get::<_, String>(2)?))).unwrap();
        for r in rows { tg.push(r.unwrap()); }
    }
    tg.sort_by(|a, b| (a.0, a.1.as_bytes(), a.2.as_bytes()).cmp(&(b.0, b.1.as_bytes(), b.2.as_bytes())));
    json!({"pk": pk, "vs": vs, "tg": tg})
}

fn sorted(mut v: Vec<String>) -> Vec<String> {
    v.sort_by(|a, b| a.as_bytes().cmp(b.as_bytes()));
    v
}

struct Handle { cache: Cache, interval: i64, ignore_pre: bool }

pub fn run(args: &Args) {
    let steps: usize = args.opt("steps").map(|s| s.parse().unwrap()).unwrap_or(40);
    for case in 0..args.n {
        let mut r = Rng::new(args.seed.wrapping_mul(1_000_003).wrapping_add(case as u64));
        let dir = tempfile::TempDir::new().unwrap();
        let path = dir.path().join("versions.db");
        let mut now: i64 = 1_700_000_000_000 + r.range(0, 1000);
        verif_hooks::set_clock(Some(now));
        let mk = |r: &mut Rng, path: &std::path::Path| {
            let interval = *r.pick(&[86_400_000i64, 1000, 30_000, 0]);
            let ignore_pre = r.chance(2, 3);
            Handle { cache: Cache::new(path, interval, ignore_pre).unwrap(), interval, ignore_pre }
        };
        let mut handles = vec![mk(&mut r, &path)];
        // one to three handles on the file from the start (a handle may keep state of its own between calls)
        for _ in 0..r.below(3) { let h = mk(&mut r, &path); handles.push(h); }
        // earlier store / tags operations, with the handle that issued them: replayed verbatim later (A-B-A histories)
        let mut past: Vec<(usize, RegistryType, String, Value)> = vec![];
        // a small key pool per history so that operations collide
        let nk = 2 + r.below(3);
        let keys: Vec<(RegistryType, String)> = (0..nk).map(|i| {
            if i == 1 && r.chance(1, 2) { (*r.pick(&REGS), "a".to_string()) } else { (*r.pick(&REGS), r.pick(NAMES).to_string()) }
        }).collect();
        let mut ops = vec![];
        let mut outs = vec![];
        for _ in 0..steps {
            now += *r.pick(&[0i64, 0, 1, 1, 500, 29_999, 30_000, 30_001, 86_400_000, 999, -1, -1000]);    // the clock may step back
            verif_hooks::set_clock(Some(now));
            let mut hi = r.below(handles.len());
            let (mut reg, mut name) = keys[r.below(keys.len())].clone();
            let mut kind = r.below(100);
            // one step in five repeats an earlier write verbatim, mostly on the handle that issued it
            let mut echo: Option<Value> = None;
            if !past.is_empty() && r.chance(1, 5) {
                let (h0, reg0, name0, op0) = past[r.below(past.len())].clone();
                if h0 < handles.len() && r.chance(3, 4) { hi = h0; }
                reg = reg0; name = name0;
                kind = if op0["op"] == "store" { 0 } else { 30 };
                echo = Some(op0);
            }
            let regs = reg.as_str();
            let res = catch_unwind(AssertUnwindSafe(|| -> (Value, Value) {
                let h = &handles[hi];
                if kind < 28 {
                    let n = r.below(5);
                    let vs: Vec<String> = match &echo {
                        Some(op0) => op0["vs"].as_array().unwrap().iter().map(|x| x.as_str().unwrap().to_string()).collect(),
                        None => (0..n).map(|_| r.pick(VERSIONS).to_string()).collect(),
                    };
                    let ret = h.cache.replace_versions(reg, &name, vs.clone()).is_ok();
                    (json!({"op": "store", "reg": regs, "name": name, "vs": vs, "now": now}), json!(ret))
                } else if kind < 40 {
                    let mut m = HashMap::new();
                    match &echo {
                        Some(op0) => for kv in op0["m"].as_array().unwrap() { m.insert(kv[0].as_str().unwrap().to_string(), kv[1].as_str().unwrap().to_string()); },
                        None => for _ in 0..r.below(4) { m.insert(r.pick(TAGS).to_string(), r.pick(VERSIONS).to_string()); },
                    }
                    let ret = h.cache.save_dist_tags(reg, &name, &m).is_ok();
                    let mut ml: Vec<(String, String)> = m.into_iter().collect();
                    ml.sort();
                    (json!({"op": "tags", "reg": regs, "name": name, "m": ml, "now": now}), json!(ret))
                } else if kind < 45 {
                    let ret = h.cache.mark_not_found(reg, &name).is_ok();
                    (json!({"op": "mark", "reg": regs, "name": name}), json!(ret))
                } else if kind < 56 {
                    let ret = h.cache.try_start_fetch(reg, &name).ok();
                    (json!({"op": "claim", "reg": regs, "name": name, "now": now}), json!(ret))
                } else if kind < 63 {
                    let ret = h.cache.finish_fetch(reg, &name).is_ok();
                    (json!({"op": "release", "reg": regs, "name": name}), json!(ret))
                } else if kind < 73 {
                    let ret = match h.cache.get_latest_version(reg, &name) { Ok(v) => json!({"ok": v}), Err(_) => json!("err") };
                    (json!({"op": "latest", "reg": regs, "name": name, "ignore_pre": h.ignore_pre}), ret)
                } else if kind < 78 {
                    let ret = VersionStorer::get_versions(&h.cache, reg, &name).ok().map(sorted);
                    (json!({"op": "versions", "reg": regs, "name": name}), json!(ret))
                } else if kind < 86 {
                    let mut names: Vec<String> = (0..r.below(5)).map(|_| if r.chance(3, 4) { keys[r.below(keys.len())].1.clone() } else { r.pick(NAMES).to_string() }).collect();
                    if r.chance(1, 4) && !names.is_empty() { let d = names[0].clone(); names.push(d); }
                    let ret = h.cache.filter_packages_not_in_cache(reg, &names).ok();
                    (json!({"op": "filter", "reg": regs, "names": names}), json!(ret))
                } else if kind < 92 {
                    let ret = h.cache.get_packages_needing_refresh().ok().map(|v| {
                        let mut l: Vec<(String, String)> = v.into_iter().map(|p| (p.registry_type.as_str().to_string(), p.package_name)).collect();
                        l.sort_by(|a, b| (a.0.as_bytes(), a.1.as_bytes()).cmp(&(b.0.as_bytes(), b.1.as_bytes())));
                        l
                    });
                    (json!({"op": "refresh", "interval": h.interval, "now": now}), json!(ret))
                } else if kind < 95 {
                    let t = r.pick(TAGS).to_string();
                    let ret = match VersionStorer::get_dist_tag(&h.cache, reg, &name, &t) { Ok(v) => json!({"ok": v}), Err(_) => json!("err") };
                    (json!({"op": "dist_tag", "reg": regs, "name": name, "tag": t}), ret)
                } else {
                    let v = r.pick(VERSIONS).to_string();
                    let ret = h.cache.version_exists(reg, &name, &v).ok();
                    (json!({"op": "exists", "reg": regs, "name": name, "v": v}), json!(ret))
                }
            }));
            let (op, ret) = match res { Ok(x) => x, Err(_) => (json!({"op": "panic"}), json!("panic")) };
            if op["op"] == "store" || op["op"] == "tags" { past.push((hi, reg, name.clone(), op.clone())); }
            ops.push(op);
            outs.push(json!({"ret": ret, "db": raw_tables(&path)}));
            // reopen / add a handle / drop a handle
            let k = r.below(100);
            if k < 5 {
                handles[hi] = mk(&mut r, &path);
                ops.push(json!({"op": "reopen"}));
                outs.push(json!({"ret": true, "db": raw_tables(&path)}));
            } else if k < 8 && handles.len() < 3 {
                let h = mk(&mut r, &path);
                handles.push(h);
                ops.push(json!({"op": "reopen"}));
                outs.push(json!({"ret": true, "db": raw_tables(&path)}));
            }
        }
        // closing sweep: every key of the pool is read back in full through a random handle (versions, every tag name the
        // history wrote for it, latest), so that whatever the history did wrong is seen by a read
        for (reg, name) in keys.iter() {
            let regs = reg.as_str();
            let h = &handles[r.below(handles.len())];
            let ret = VersionStorer::get_versions(&h.cache, *reg, name).ok().map(sorted);
            ops.push(json!({"op": "versions", "reg": regs, "name": name}));
            outs.push(json!({"ret": ret, "db": raw_tables(&path)}));
            let mut tagnames: Vec<String> = vec![];
            for (_, reg0, name0, op0) in past.iter() {
                if reg0 == reg && name0 == name && op0["op"] == "tags" {
                    for kv in op0["m"].as_array().unwrap() { let t = kv[0].as_str().unwrap().to_string(); if !tagnames.contains(&t) { tagnames.push(t); } }
                }
            }
            for t in tagnames {
                let ret = match VersionStorer::get_dist_tag(&h.cache, *reg, name, &t) { Ok(v) => json!({"ok": v}), Err(_) => json!("err") };
                ops.push(json!({"op": "dist_tag", "reg": regs, "name": name, "tag": t}));
                outs.push(json!({"ret": ret, "db": raw_tables(&path)}));
            }
            let ret = match h.cache.get_latest_version(*reg, name) { Ok(v) => json!({"ok": v}), Err(_) => json!("err") };
            ops.push(json!({"op": "latest", "reg": regs, "name": name, "ignore_pre": h.ignore_pre}));
            outs.push(json!({"ret": ret, "db": raw_tables(&path)}));
        }
        verif_hooks::set_clock(None);
        emit(json!({"ops": ops}), json!({"steps": outs}));
    }
}
