//! C14 (decoding level): serde_json::from_value::<LspConfig> on JSON values from stdin, one per line.
use crate::{Args, emit};
use serde_json::{Value, json};
use std::io::BufRead;
use version_lsp::config::LspConfig;

pub fn run(_args: &Args) {
    let stdin = std::io::stdin();
    for line in stdin.lock().lines() {
        let line = line.unwrap();
        if line.trim().is_empty() { continue; }
        let v: Value = serde_json::from_str(&line).expect("json");
        let out = match serde_json::from_value::<LspConfig>(v.clone()) {
            Ok(c) => json!({"ok": {
                "refresh_interval": c.cache.refresh_interval.to_string(),
                "ignore_prerelease": c.ignore_prerelease,
                "enabled": [["npm", c.registries.npm.enabled], ["crates", c.registries.crates.enabled], ["goProxy", c.registries.go_proxy.enabled],
                            ["github", c.registries.github.enabled], ["pnpmCatalog", c.registries.pnpm_catalog.enabled],
                            ["jsr", c.registries.jsr.enabled], ["pypi", c.registries.pypi.enabled]]}}),
            Err(_) => json!("err"),
        };
        emit(v, out);
    }
}
