//! C10: fetch_missing_packages / refresh_packages over a real Cache behind a fault-injecting
//! VersionStorer and a scripted Registry.  stdin: one JSON case per line:
//!  {"reg": "npm", "now": 1700000000000, "mode": "missing"|"refresh", "filter_fails": bool,
//!   "prefill": [ops as in cache-fault], "batch": [{"name":..,"outcome":{"kind":"versions","vs":[..],"tags":[[k,v]..]}|{"kind":"not_found"}|{"kind":"rate_limited"}|{"kind":"invalid"},
//!                                                "faults":["claim","store","tags","mark","release"]}]}
use crate::cachefault::apply_op;
use crate::cacheseq::raw_tables;
use crate::{Args, emit};
use serde_json::{Value, json};
use std::collections::{HashMap, HashSet};
use std::io::BufRead;
use std::sync::Mutex;
use version_lsp::lsp::refresh::{fetch_missing_packages, refresh_packages};
use version_lsp::parser::types::{PackageInfo, RegistryType};
use version_lsp::version::cache::{Cache, PackageId, verif_hooks};
use version_lsp::version::checker::VersionStorer;
use version_lsp::version::error::{CacheError, RegistryError};
use version_lsp::version::registry::Registry;
use version_lsp::version::types::PackageVersions;

pub struct FaultStorer {
    pub inner: Cache,
    pub fail: HashSet<(String, String)>,   // (call site, package name)
    pub filter_fails: bool,
    pub calls: Mutex<Vec<(String, String)>>,
}
impl FaultStorer {
    fn hit(&self, site: &str, name: &str) -> Result<(), CacheError> {
        self.calls.lock().unwrap().push((site.to_string(), name.to_string()));
        if self.fail.contains(&(site.to_string(), name.to_string())) { Err(CacheError::LockPoisoned) } else { Ok(()) }
    }
}
impl VersionStorer for FaultStorer {
    fn get_latest_version(&self, r: RegistryType, n: &str) -> Result<Option<String>, CacheError> { self.hit("latest", n)?; self.inner.get_latest_version(r, n) }
    fn get_versions(&self, r: RegistryType, n: &str) -> Result<Vec<String>, CacheError> { self.hit("versions", n)?; VersionStorer::get_versions(&self.inner, r, n) }
    fn version_exists(&self, r: RegistryType, n: &str, v: &str) -> Result<bool, CacheError> { self.inner.version_exists(r, n, v) }
    fn replace_versions(&self, r: RegistryType, n: &str, v: Vec<String>) -> Result<(), CacheError> { self.hit("store", n)?; self.inner.replace_versions(r, n, v) }
    fn get_packages_needing_refresh(&self) -> Result<Vec<PackageId>, CacheError> { self.inner.get_packages_needing_refresh() }
    fn try_start_fetch(&self, r: RegistryType, n: &str) -> Result<bool, CacheError> { self.hit("claim", n)?; self.inner.try_start_fetch(r, n) }
    fn finish_fetch(&self, r: RegistryType, n: &str) -> Result<(), CacheError> { self.hit("release", n)?; self.inner.finish_fetch(r, n) }
    fn get_dist_tag(&self, r: RegistryType, n: &str, t: &str) -> Result<Option<String>, CacheError> { self.hit("tag", n)?; VersionStorer::get_dist_tag(&self.inner, r, n, t) }
    fn save_dist_tags(&self, r: RegistryType, n: &str, m: &HashMap<String, String>) -> Result<(), CacheError> { self.hit("tags", n)?; VersionStorer::save_dist_tags(&self.inner, r, n, m) }
    fn filter_packages_not_in_cache(&self, r: RegistryType, names: &[String]) -> Result<Vec<String>, CacheError> {
        if self.filter_fails { return Err(CacheError::LockPoisoned); }
        self.inner.filter_packages_not_in_cache(r, names)
    }
    fn mark_not_found(&self, r: RegistryType, n: &str) -> Result<(), CacheError> { self.hit("mark", n)?; self.inner.mark_not_found(r, n) }
}

pub struct ScriptRegistry {
    pub reg: RegistryType,
    pub outcomes: Mutex<HashMap<String, Vec<Value>>>,   // per name: a queue of outcomes, one per occurrence
    pub log: Mutex<Vec<String>>,
}
#[async_trait::async_trait]
impl Registry for ScriptRegistry {
    fn registry_type(&self) -> RegistryType { self.reg }
    async fn fetch_all_versions(&self, name: &str) -> Result<PackageVersions, RegistryError> {
        self.log.lock().unwrap().push(name.to_string());
        let o = {
            let mut m = self.outcomes.lock().unwrap();
            let q = m.get_mut(name).expect("unscripted package");
            if q.len() > 1 { q.remove(0) } else { q[0].clone() }
        };
        match o["kind"].as_str().unwrap() {
            "versions" => {
                let vs = o["vs"].as_array().unwrap().iter().map(|x| x.as_str().unwrap().to_string()).collect();
                let mut tags = HashMap::new();
                for kv in o["tags"].as_array().unwrap() { tags.insert(kv[0].as_str().unwrap().to_string(), kv[1].as_str().unwrap().to_string()); }
                Ok(PackageVersions::with_dist_tags(vs, tags))
            }
            "not_found" => Err(RegistryError::NotFound(name.to_string())),
            "rate_limited" => Err(RegistryError::RateLimited { retry_after_secs: Some(1) }),
            _ => Err(RegistryError::InvalidResponse("garbage".to_string())),
        }
    }
}

pub fn run(_args: &Args) {
    let stdin = std::io::stdin();
    for line in stdin.lock().lines() {
        let line = line.unwrap();
        if line.trim().is_empty() { continue; }
        let v: Value = serde_json::from_str(&line).expect("json case");
        let reg: RegistryType = v["reg"].as_str().unwrap().parse().unwrap();
        let now = v["now"].as_i64().unwrap();
        let dir = tempfile::TempDir::new().unwrap();
        let path = dir.path().join("versions.db");
        verif_hooks::set_clock(Some(now));
        let cache = Cache::new(&path, 86_400_000, true).unwrap();
        for o in v["prefill"].as_array().unwrap() { apply_op(&cache, o); }
        verif_hooks::set_clock(Some(now));
        let before = raw_tables(&path);
        let mut fail = HashSet::new();
        let mut outcomes: HashMap<String, Vec<Value>> = HashMap::new();
        let batch = v["batch"].as_array().unwrap();
        for e in batch {
            let name = e["name"].as_str().unwrap().to_string();
            for f in e["faults"].as_array().unwrap() { fail.insert((f.as_str().unwrap().to_string(), name.clone())); }
            outcomes.entry(name).or_default().push(e["outcome"].clone());
        }
        let storer = FaultStorer { inner: cache, fail, filter_fails: v["filter_fails"].as_bool().unwrap_or(false), calls: Mutex::new(vec![]) };
        let registry = ScriptRegistry { reg, outcomes: Mutex::new(outcomes), log: Mutex::new(vec![]) };
        let rt = tokio::runtime::Builder::new_current_thread().enable_all().start_paused(true).build().unwrap();
        let names: Vec<String> = batch.iter().map(|e| e["name"].as_str().unwrap().to_string()).collect();
        let ret: Value = if v["mode"].as_str().unwrap() == "missing" {
            let pkgs: Vec<PackageInfo> = names.iter().map(|n| PackageInfo {
                name: n.clone(), version: "1.0.0".into(), commit_hash: None, registry_type: reg,
                start_offset: 0, end_offset: 5, line: 0, column: 0, extra_info: None }).collect();
            json!(rt.block_on(fetch_missing_packages(&storer, &registry, &pkgs)))
        } else {
            let ids: Vec<PackageId> = names.iter().map(|n| PackageId { registry_type: reg, package_name: n.clone() }).collect();
            rt.block_on(refresh_packages(&storer, &registry, ids));
            Value::Null
        };
        let log = registry.log.lock().unwrap().clone();
        let calls = storer.calls.lock().unwrap().clone();
        emit(v, json!({"ret": ret, "requested": log, "calls": calls, "before": before, "after": raw_tables(&path)}));
    }
    verif_hooks::set_clock(None);
}
