//! Lib/SemVer.v correspondence: semver::Version::parse / cmp / Display and
//! version_lsp's lenient parse_version and bump calculators, on cases from stdin:
//!   {"a": "...", "b": "...", "avail": ["..."]}
use crate::{Args, emit};
use serde_json::{Value, json};
use std::io::BufRead;
use std::panic::{AssertUnwindSafe, catch_unwind};
use version_lsp::version::semver::{calculate_latest_major, calculate_latest_minor, calculate_latest_patch, is_prerelease, parse_version};

fn ver_json(v: &semver::Version) -> Value {
    json!({"major": v.major.to_string(), "minor": v.minor.to_string(), "patch": v.patch.to_string(),
           "pre": v.pre.as_str(), "build": v.build.as_str(), "show": v.to_string()})
}

pub fn run(_args: &Args) {
    let stdin = std::io::stdin();
    for line in stdin.lock().lines() {
        let line = line.unwrap();
        if line.trim().is_empty() {
            continue;
        }
        let v: Value = serde_json::from_str(&line).expect("json case");
        let a = v["a"].as_str().unwrap().to_string();
        let b = v["b"].as_str().unwrap().to_string();
        let avail: Vec<String> = v["avail"].as_array().map(|x| x.iter().map(|s| s.as_str().unwrap().to_string()).collect()).unwrap_or_default();
        let r = catch_unwind(AssertUnwindSafe(|| {
            let pa = semver::Version::parse(&a).ok();
            let pb = semver::Version::parse(&b).ok();
            let cmp = match (&pa, &pb) {
                (Some(x), Some(y)) => Some(match x.cmp(y) { std::cmp::Ordering::Less => 0, std::cmp::Ordering::Equal => 1, std::cmp::Ordering::Greater => 2 }),
                _ => None,
            };
            let eq = match (&pa, &pb) { (Some(x), Some(y)) => Some(x == y), _ => None };
            json!({
                "parse_a": pa.as_ref().map(ver_json),
                "lenient_a": parse_version(&a).as_ref().map(ver_json),
                "cmp": cmp, "eq": eq,
                "is_pre_a": is_prerelease(&a),
                "patch": calculate_latest_patch(&a, &avail),
                "minor": calculate_latest_minor(&a, &avail),
                "major": calculate_latest_major(&a, &avail),
            })
        }));
        match r {
            Ok(out) => emit(v, out),
            Err(_) => emit(v, json!("panic")),
        }
    }
}
