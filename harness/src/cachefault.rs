//! C11: error injection (in-process) and process abort (child process) at every statement
//! point of the cache write paths; C12: legacy database shapes.
use crate::cacheseq::{NAMES, REGS, TAGS, VERSIONS, raw_tables};
use crate::rng::Rng;
use crate::{Args, emit};
use serde_json::{Value, json};
use std::collections::HashMap;
use std::path::Path;
use std::sync::atomic::{AtomicI64, Ordering};
use version_lsp::parser::types::RegistryType;
use version_lsp::version::cache::{Cache, verif_hooks};
use version_lsp::version::checker::VersionStorer;

pub fn reg_of(s: &str) -> RegistryType {
    s.parse::<RegistryType>().unwrap()
}

/// apply one write op (JSON) to a cache; returns Ok / Err
pub fn apply_op(cache: &Cache, o: &Value) -> Value {
    let reg = reg_of(o["reg"].as_str().unwrap());
    let name = o["name"].as_str().unwrap();
    if let Some(now) = o["now"].as_i64() {
        verif_hooks::set_clock(Some(now));
    }
    match o["op"].as_str().unwrap() {
        "store" => {
            let vs: Vec<String> = o["vs"].as_array().unwrap().iter().map(|x| x.as_str().unwrap().to_string()).collect();
            json!(cache.replace_versions(reg, name, vs).is_ok())
        }
        "tags" => {
            let mut m = HashMap::new();
            for kv in o["m"].as_array().unwrap() {
                m.insert(kv[0].as_str().unwrap().to_string(), kv[1].as_str().unwrap().to_string());
            }
            json!(cache.save_dist_tags(reg, name, &m).is_ok())
        }
        "mark" => json!(cache.mark_not_found(reg, name).is_ok()),
        "claim" => json!(cache.try_start_fetch(reg, name).ok()),
        "release" => json!(cache.finish_fetch(reg, name).is_ok()),
        _ => panic!("op"),
    }
}

fn rnd_write(r: &mut Rng, keys: &[(RegistryType, String)], now: i64) -> Value {
    let (reg, name) = keys[r.below(keys.len())].clone();
    match r.below(10) {
        0..=3 => {
            let n = 1 + r.below(4);
            let vs: Vec<String> = (0..n).map(|_| r.pick(VERSIONS).to_string()).collect();
            json!({"op": "store", "reg": reg.as_str(), "name": name, "vs": vs, "now": now})
        }
        4..=6 => {
            let mut m = HashMap::new();
            for _ in 0..1 + r.below(3) { m.insert(r.pick(TAGS).to_string(), r.pick(VERSIONS).to_string()); }
            let mut ml: Vec<(String, String)> = m.into_iter().collect();
            ml.sort();
            json!({"op": "tags", "reg": reg.as_str(), "name": name, "m": ml, "now": now})
        }
        7 => json!({"op": "mark", "reg": reg.as_str(), "name": name}),
        8 => json!({"op": "claim", "reg": reg.as_str(), "name": name, "now": now}),
        _ => json!({"op": "release", "reg": reg.as_str(), "name": name}),
    }
}

static COUNT: AtomicI64 = AtomicI64::new(0);
static PEEK: std::sync::Mutex<Option<Value>> = std::sync::Mutex::new(None);

/// arm the point handler: at the nth visit of (function, point) read the database through an
/// independent connection (what another handle / process would see at that instant)
fn arm_peek(function: String, point: u32, nth: i64, path: std::path::PathBuf) {
    COUNT.store(0, Ordering::SeqCst);
    *PEEK.lock().unwrap() = None;
    verif_hooks::set_point_handler(Some(Box::new(move |f, k| {
        if f == function && k == point {
            let c = COUNT.fetch_add(1, Ordering::SeqCst);
            if c == nth {
                *PEEK.lock().unwrap() = Some(raw_tables(&path));
            }
        }
        false
    })));
}

/// arm the point handler: fail (or abort) at the nth visit of (function, point)
fn arm(function: String, point: u32, nth: i64, abort: bool) {
    COUNT.store(0, Ordering::SeqCst);
    verif_hooks::set_point_handler(Some(Box::new(move |f, k| {
        if f == function && k == point {
            let c = COUNT.fetch_add(1, Ordering::SeqCst);
            if c == nth {
                if abort {
                    std::process::abort();
                }
                return true;
            }
        }
        false
    })));
}

fn points_of(op: &str) -> Vec<(&'static str, u32, i64)> {
    // (function, point, nth visit)
    match op {
        "store" => vec![("replace_versions", 0, 0), ("replace_versions", 1, 0), ("replace_versions", 2, 0), ("replace_versions", 2, 1), ("replace_versions", 3, 0)],
        "tags" => vec![("save_dist_tags", 0, 0), ("save_dist_tags", 1, 0), ("save_dist_tags", 2, 0), ("save_dist_tags", 3, 0), ("save_dist_tags", 3, 1), ("save_dist_tags", 4, 0)],
        "claim" => vec![("try_start_fetch", 1, 0)],
        _ => vec![],
    }
}

fn run_prefix(path: &Path, prefix: &[Value]) -> Cache {
    let cache = Cache::new(path, 86_400_000, true).unwrap();
    for o in prefix {
        apply_op(&cache, o);
    }
    cache
}

pub fn run_fault(args: &Args) {
    let with_abort = args.opt("abort").map(|s| s == "1").unwrap_or(true);
    for case in 0..args.n {
        let mut r = Rng::new(args.seed.wrapping_mul(9_000_011).wrapping_add(case as u64));
        let nk = 1 + r.below(2);
        let keys: Vec<(RegistryType, String)> = (0..nk).map(|_| (*r.pick(&REGS), r.pick(NAMES).to_string())).collect();
        let mut now: i64 = 1_700_000_000_000;
        let mut prefix = vec![];
        for _ in 0..r.below(6) {
            now += 1000;
            prefix.push(rnd_write(&mut r, &keys, now));
        }
        now += 1000;
        let mut op = rnd_write(&mut r, &keys, now);
        while points_of(op["op"].as_str().unwrap()).is_empty() {
            op = rnd_write(&mut r, &keys, now);
        }
        // one case in eight interrupts a store of a long version list deep inside its insert loop (a write path that
        // splits long lists into several transactions would leave a partial list behind)
        let long = case % 8 == 3;
        if long {
            let (reg, name) = keys[r.below(keys.len())].clone();
            let vs: Vec<String> = (0..1030).map(|i| format!("{}.{}.{}", i / 100, (i / 10) % 10, i % 10)).collect();
            op = json!({"op": "store", "reg": reg.as_str(), "name": name, "vs": vs, "now": now});
        }
        // before / after on a reference file
        let dir = tempfile::TempDir::new().unwrap();
        let ref_path = dir.path().join("ref.db");
        verif_hooks::set_point_handler(None);
        let c = run_prefix(&ref_path, &prefix);
        let before = raw_tables(&ref_path);
        let ok_ret = apply_op(&c, &op);
        let after = raw_tables(&ref_path);
        drop(c);
        let pts = if long { vec![("replace_versions", 2, 515), ("replace_versions", 2, 1028), ("replace_versions", 3, 0)] } else { points_of(op["op"].as_str().unwrap()) };
        for (k, (f, p, nth)) in pts.into_iter().enumerate() {
            // (1) injected database error
            let path = dir.path().join(format!("err{k}.db"));
            verif_hooks::set_point_handler(None);
            let c = run_prefix(&path, &prefix);
            arm(f.to_string(), p, nth, false);
            let ret = apply_op(&c, &op);
            let fired = COUNT.load(Ordering::SeqCst) > nth;
            verif_hooks::set_point_handler(None);
            drop(c);
            let reopened = Cache::new(&path, 86_400_000, true).is_ok();
            let got = raw_tables(&path);
            emit(json!({"mode": "error", "prefix": prefix, "op": op, "point": [f, p, nth]}),
                 json!({"fired": fired, "ret": ret, "ok_ret": ok_ret, "reopened": reopened, "before": before, "after": after, "got": got}));
            // (3) a second handle reading while the writer is at this point
            let path = dir.path().join(format!("peek{k}.db"));
            verif_hooks::set_point_handler(None);
            let c = run_prefix(&path, &prefix);
            arm_peek(f.to_string(), p, nth, path.clone());
            let ret = apply_op(&c, &op);
            verif_hooks::set_point_handler(None);
            drop(c);
            let seen = PEEK.lock().unwrap().take();
            emit(json!({"mode": "peek", "prefix": prefix, "op": op, "point": [f, p, nth]}),
                 json!({"fired": seen.is_some(), "ret": ret, "ok_ret": ok_ret, "reopened": true, "before": before, "after": after,
                        "got": seen.unwrap_or(Value::Null), "final": raw_tables(&path)}));
            // (2) process abort in a child
            if with_abort {
                let path = dir.path().join(format!("abort{k}.db"));
                let spec = json!({"path": path.to_str().unwrap(), "prefix": prefix, "op": op, "point": [f, p, nth]});
                let st = std::process::Command::new(std::env::current_exe().unwrap())
                    .arg("crash-child").arg("--spec").arg(spec.to_string())
                    .stdout(std::process::Stdio::null()).stderr(std::process::Stdio::null()).status().unwrap();
                let reopened = Cache::new(&path, 86_400_000, true).is_ok();
                let got = raw_tables(&path);
                emit(json!({"mode": "abort", "prefix": prefix, "op": op, "point": [f, p, nth]}),
                     json!({"fired": !st.success(), "ret": null, "ok_ret": ok_ret, "reopened": reopened, "before": before, "after": after, "got": got}));
            }
        }
    }
    verif_hooks::set_clock(None);
}

pub fn run_child(args: &Args) {
    let spec: Value = serde_json::from_str(args.opt("spec").unwrap()).unwrap();
    let path = std::path::PathBuf::from(spec["path"].as_str().unwrap());
    let prefix: Vec<Value> = spec["prefix"].as_array().unwrap().clone();
    let c = run_prefix(&path, &prefix);
    let p = &spec["point"];
    arm(p[0].as_str().unwrap().to_string(), p[1].as_u64().unwrap() as u32, p[2].as_i64().unwrap(), true);
    apply_op(&c, &spec["op"]);
    // the point was not reached (e.g. second loop iteration with one element): exit normally
}

// ---------------------------------------------------------------- C12
const BASE_SQL: &str = r#"
CREATE TABLE packages (id INTEGER PRIMARY KEY AUTOINCREMENT, registry_type TEXT NOT NULL, package_name TEXT NOT NULL, updated_at INTEGER NOT NULL, UNIQUE(registry_type, package_name));
CREATE INDEX idx_updated_at ON packages(updated_at);
CREATE TABLE versions (id INTEGER PRIMARY KEY AUTOINCREMENT, package_id INTEGER NOT NULL, version TEXT NOT NULL, FOREIGN KEY (package_id) REFERENCES packages(id) ON DELETE CASCADE, UNIQUE(package_id, version));
CREATE INDEX idx_package_id ON versions(package_id);
CREATE TABLE dist_tags (id INTEGER PRIMARY KEY AUTOINCREMENT, package_id INTEGER NOT NULL, tag_name TEXT NOT NULL, version TEXT NOT NULL, FOREIGN KEY (package_id) REFERENCES packages(id) ON DELETE CASCADE, UNIQUE(package_id, tag_name));
CREATE INDEX idx_dist_tags_package_id ON dist_tags(package_id);
"#;

pub fn run_migrate(args: &Args) {
    // shapes: (has_fetching, has_notfound, user_version); also a fresh (missing) file
    let shapes: Vec<(bool, bool, i64)> = vec![(false, false, 0), (true, false, 0), (true, false, 1), (true, true, 0), (true, true, 1), (true, true, 2), (true, true, 3), (true, true, 7)];
    for case in 0..args.n {
        let mut r = Rng::new(args.seed.wrapping_mul(13_000_007).wrapping_add(case as u64));
        let (hf, hn, uv) = shapes[case % shapes.len()];
        let dir = tempfile::TempDir::new().unwrap();
        let path = dir.path().join("versions.db");
        // legacy data
        let npk = r.below(4);
        let mut rows = vec![];
        {
            let conn = rusqlite::Connection::open(&path).unwrap();
            if r.chance(1, 2) { conn.pragma_update(None, "journal_mode", "WAL").unwrap(); }
            conn.execute_batch(BASE_SQL).unwrap();
            if hf { conn.execute("ALTER TABLE packages ADD COLUMN fetching_since INTEGER", []).unwrap(); }
            if hn { conn.execute("ALTER TABLE packages ADD COLUMN not_found INTEGER NOT NULL DEFAULT 0", []).unwrap(); }
            conn.pragma_update(None, "user_version", uv).unwrap();
            for i in 0..npk {
                let reg = r.pick(&REGS).as_str();
                let name = format!("{}{}", r.pick(NAMES), i);
                let upd = 1_600_000_000_000i64 + r.range(0, 1000);
                conn.execute("INSERT INTO packages (registry_type, package_name, updated_at) VALUES (?1, ?2, ?3)", (reg, &name, upd)).unwrap();
                let pid = conn.last_insert_rowid();
                let fs = if hf && r.chance(1, 3) { Some(upd + 5) } else { None };
                if let Some(f) = fs { conn.execute("UPDATE packages SET fetching_since = ?1 WHERE id = ?2", (f, pid)).unwrap(); }
                let nf = hn && r.chance(1, 4);
                if nf { conn.execute("UPDATE packages SET not_found = 1 WHERE id = ?1", [pid]).unwrap(); }
                let mut vs = vec![];
                for _ in 0..r.below(4) {
                    let v = r.pick(VERSIONS).to_string();
                    if conn.execute("INSERT OR IGNORE INTO versions (package_id, version) VALUES (?1, ?2)", (pid, &v)).unwrap() > 0 { vs.push(v); }
                }
                let mut tg = vec![];
                for _ in 0..r.below(3) {
                    let t = r.pick(TAGS).to_string();
                    let v = r.pick(VERSIONS).to_string();
                    if conn.execute("INSERT OR IGNORE INTO dist_tags (package_id, tag_name, version) VALUES (?1, ?2, ?3)", (pid, &t, &v)).unwrap() > 0 { tg.push((t, v)); }
                }
                rows.push(json!({"id": pid, "reg": reg, "name": name, "updated": upd, "fetching": fs, "not_found": nf, "vs": vs, "tags": tg}));
            }
        }
        // every second case: a first open that is interrupted by a database error at one statement point of schema
        // creation / migration (what a failing disk or a second server holding the write lock does); the opens that
        // follow are retries and must succeed on whatever the interrupted one left behind
        let mut interrupted = Value::Null;
        if r.chance(1, 2) {
            let pts: [(&str, u32); 9] = [("create_schema", 1), ("create_schema", 2), ("create_schema", 3), ("create_schema", 4), ("create_schema", 5), ("create_schema", 6),
                                          ("apply_migrations", 0), ("apply_migrations", 1), ("apply_migrations", 2)];
            let (f, p) = *r.pick(&pts);
            arm(f.to_string(), p, 0, false);
            let res = Cache::new(&path, 86_400_000, true).is_ok();
            let fired = COUNT.load(Ordering::SeqCst) > 0;
            verif_hooks::set_point_handler(None);
            interrupted = json!({"point": [f, p], "fired": fired, "open_ok": res});
        }
        // open 1..3 times
        let opens = 1 + r.below(3);
        let mut results = vec![];
        let mut cache = None;
        for _ in 0..opens {
            match Cache::new(&path, 86_400_000, true) {
                Ok(c) => { results.push(true); cache = Some(c); }
                Err(_) => results.push(false),
            }
        }
        let after_open = raw_tables_or_err(&path);
        let uv_after: i64 = rusqlite::Connection::open(&path).unwrap().pragma_query_value(None, "user_version", |r| r.get(0)).unwrap();
        // then a short history of operations, compared by the driver with the model started from the same rows
        let mut ops = vec![];
        let mut outs = vec![];
        if let Some(c) = cache.as_ref() {
            let keys: Vec<(RegistryType, String)> = rows.iter().map(|x| (reg_of(x["reg"].as_str().unwrap()), x["name"].as_str().unwrap().to_string()))
                .chain(std::iter::once((RegistryType::Npm, "new".to_string()))).collect();
            let mut now = 1_700_000_000_000i64;
            for _ in 0..8 {
                now += *r.pick(&[1000i64, 29_999, 30_001]);
                let o = rnd_write(&mut r, &keys, now);
                let ret = apply_op(c, &o);
                ops.push(o);
                outs.push(json!({"ret": ret, "db": raw_tables_or_err(&path)}));
            }
        }
        verif_hooks::set_clock(None);
        emit(json!({"shape": [hf, hn, uv], "rows": rows, "opens": opens, "ops": ops, "interrupted_first_open": interrupted}),
             json!({"open_results": results, "after_open": after_open, "user_version": uv_after, "steps": outs}));
    }
}

fn raw_tables_or_err(path: &Path) -> Value {
    match std::panic::catch_unwind(|| raw_tables(path)) {
        Ok(v) => v,
        Err(_) => json!("unreadable"),
    }
}
