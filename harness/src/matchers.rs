//! C02/C01: public matchers on cases read from stdin (one JSON object per line):
//!   {"eco": "npm"|"pnpm"|"jsr"|"crates"|"go"|"gha"|"pypi", "spec": "...", "versions": ["..."]}
//! Output per case: exists (over the whole list), exists_each (singleton lists),
//! compare_each (compare_to_latest(spec, v)), or "panic".
use crate::{Args, emit};
use serde_json::{Value, json};
use std::io::BufRead;
use std::panic::{AssertUnwindSafe, catch_unwind};
use version_lsp::version::matcher::VersionMatcher;
use version_lsp::version::matchers::{
    CratesVersionMatcher, GitHubActionsMatcher, GoVersionMatcher, JsrVersionMatcher,
    NpmVersionMatcher, PnpmCatalogMatcher, PypiVersionMatcher,
};
use version_lsp::version::semver::CompareResult;

pub fn matcher_for(eco: &str) -> Box<dyn VersionMatcher> {
    match eco {
        "npm" => Box::new(NpmVersionMatcher),
        "pnpm" => Box::new(PnpmCatalogMatcher),
        "jsr" => Box::new(JsrVersionMatcher),
        "crates" => Box::new(CratesVersionMatcher),
        "go" => Box::new(GoVersionMatcher),
        "gha" => Box::new(GitHubActionsMatcher),
        "pypi" => Box::new(PypiVersionMatcher),
        _ => panic!("unknown ecosystem {eco}"),
    }
}

pub fn cr_code(c: CompareResult) -> u32 {
    match c {
        CompareResult::Latest => 0,
        CompareResult::Outdated => 1,
        CompareResult::Newer => 2,
        CompareResult::Invalid => 3,
    }
}

pub fn run(_args: &Args) {
    let stdin = std::io::stdin();
    for line in stdin.lock().lines() {
        let line = line.unwrap();
        if line.trim().is_empty() {
            continue;
        }
        let v: Value = serde_json::from_str(&line).expect("json case");
        let eco = v["eco"].as_str().unwrap().to_string();
        let spec = v["spec"].as_str().unwrap().to_string();
        let versions: Vec<String> = v["versions"].as_array().unwrap().iter().map(|x| x.as_str().unwrap().to_string()).collect();
        let m = matcher_for(&eco);
        let r = catch_unwind(AssertUnwindSafe(|| {
            let all = m.version_exists(&spec, &versions);
            let each: Vec<bool> = versions.iter().map(|x| m.version_exists(&spec, std::slice::from_ref(x))).collect();
            let cmp: Vec<u32> = versions.iter().map(|x| cr_code(m.compare_to_latest(&spec, x))).collect();
            json!({"exists": all, "exists_each": each, "compare_each": cmp})
        }));
        match r {
            Ok(out) => emit(v, out),
            Err(_) => emit(v, json!("panic")),
        }
    }
}
