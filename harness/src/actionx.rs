//! C07 / C17: cursor hit-test and bump code actions computed by the real code over a real Cache and a
//! scripted tag -> commit source.  stdin, one JSON per line:
//!   {"fmt": "...", "text": "...", "cache": {"<name>": ["<version>", ...]}, "tags": {"<name>": {"latest": "<v>"}},
//!    "sha": {"<tag>": "<sha>" | null}, "cursors": [[line, character], ...], "ignore_pre": true}
//! out: {"pkgs": [...], "cursors": [{"pos": [l,c], "hit": index|null, "actions": [{title,line,start,end,text}] | "panic"}]}
use crate::parsex::{parser_for, pkg_json};
use crate::{Args, emit};
use serde_json::{Value, json};
use std::collections::HashMap;
use std::io::BufRead;
use std::panic::{AssertUnwindSafe, catch_unwind};
use tower_lsp::lsp_types::{CodeAction, Position, Url};
use version_lsp::lsp::code_action::{PackageIndex, generate_bump_code_actions, generate_bump_code_actions_with_sha};
use version_lsp::parser::types::RegistryType;
use version_lsp::version::cache::Cache;
use version_lsp::version::checker::VersionStorer;
use version_lsp::version::error::RegistryError;
use version_lsp::version::registries::github::TagShaFetcher;

struct Shas {
    map: HashMap<String, Option<String>>,
    asked: std::sync::Mutex<Vec<(String, String)>>,
}
#[async_trait::async_trait]
impl TagShaFetcher for Shas {
    async fn fetch_tag_sha(&self, package_name: &str, tag_name: &str) -> Result<String, RegistryError> {
        self.asked.lock().unwrap().push((package_name.to_string(), tag_name.to_string()));
        match self.map.get(tag_name) {
            Some(Some(s)) => Ok(s.clone()),
            Some(None) => Err(RegistryError::RateLimited { retry_after_secs: None }),
            None => Err(RegistryError::NotFound(format!("Tag {} not found", tag_name))),
        }
    }
}

fn reg_of(fmt: &str) -> RegistryType {
    match fmt {
        "package_json" => RegistryType::Npm,
        "deno_json" => RegistryType::Jsr,
        "cargo_toml" => RegistryType::CratesIo,
        "pyproject_toml" => RegistryType::PyPI,
        "pnpm_workspace" => RegistryType::PnpmCatalog,
        "github_actions" => RegistryType::GitHubActions,
        "go_mod" => RegistryType::GoProxy,
        _ => panic!("fmt"),
    }
}

fn action_json(a: &CodeAction, uri: &Url) -> Value {
    let edits = a.edit.as_ref().and_then(|e| e.changes.as_ref()).and_then(|c| c.get(uri)).cloned().unwrap_or_default();
    let e = &edits[0];
    json!({"title": a.title, "line": e.range.start.line, "start": e.range.start.character, "end_line": e.range.end.line, "end": e.range.end.character,
           "text": e.new_text, "n_edits": edits.len()})
}

pub fn run(_args: &Args) {
    let rt = tokio::runtime::Builder::new_current_thread().enable_all().build().unwrap();
    let stdin = std::io::stdin();
    for line in stdin.lock().lines() {
        let line = line.unwrap();
        if line.trim().is_empty() {
            continue;
        }
        let v: Value = serde_json::from_str(&line).expect("json");
        let fmt = v["fmt"].as_str().unwrap();
        let text = v["text"].as_str().unwrap();
        let reg = reg_of(fmt);
        let dir = tempfile::TempDir::new().unwrap();
        let cache = Cache::new(&dir.path().join("versions.db"), 86_400_000, v["ignore_pre"].as_bool().unwrap_or(true)).unwrap();
        if let Some(m) = v["cache"].as_object() {
            for (name, vs) in m {
                let vs: Vec<String> = vs.as_array().unwrap().iter().map(|x| x.as_str().unwrap().to_string()).collect();
                cache.replace_versions(reg, name, vs).unwrap();
            }
        }
        if let Some(m) = v["tags"].as_object() {
            for (name, tg) in m {
                let mut h = HashMap::new();
                for (k, x) in tg.as_object().unwrap() {
                    h.insert(k.clone(), x.as_str().unwrap().to_string());
                }
                cache.save_dist_tags(reg, name, &h).unwrap();
            }
        }
        let shas = Shas {
            map: v["sha"].as_object().map(|m| m.iter().map(|(k, x)| (k.clone(), x.as_str().map(|s| s.to_string()))).collect()).unwrap_or_default(),
            asked: std::sync::Mutex::new(Vec::new()),
        };
        let uri = Url::parse("file:///w/doc").unwrap();
        let parser = parser_for(fmt);
        let pkgs = match catch_unwind(AssertUnwindSafe(|| parser.parse(text))) {
            Ok(Ok(p)) => p,
            _ => {
                emit(json!({"fmt": fmt}), json!({"pkgs": "panic", "cursors": []}));
                continue;
            }
        };
        let mut outs = Vec::new();
        for c in v["cursors"].as_array().unwrap() {
            let pos = Position { line: c[0].as_u64().unwrap() as u32, character: c[1].as_u64().unwrap() as u32 };
            shas.asked.lock().unwrap().clear();
            let r = catch_unwind(AssertUnwindSafe(|| {
                let index = PackageIndex::new(&pkgs);
                match index.find_at_position(pos) {
                    None => (Value::Null, json!([])),
                    Some(pkg) => {
                        let idx = pkgs.iter().position(|p| std::ptr::eq(p, pkg));
                        let actions = if pkg.registry_type == RegistryType::GitHubActions && pkg.commit_hash.is_some() {
                            rt.block_on(generate_bump_code_actions_with_sha(&cache, pkg, &uri, &shas))
                        } else {
                            generate_bump_code_actions(&cache, pkg, &uri)
                        };
                        (json!(idx), Value::Array(actions.iter().map(|a| action_json(a, &uri)).collect()))
                    }
                }
            }));
            let asked: Vec<Value> = shas.asked.lock().unwrap().iter().map(|(p, t)| json!([p, t])).collect();
            match r {
                Ok((hit, actions)) => outs.push(json!({"pos": c, "hit": hit, "actions": actions, "asked": asked})),
                Err(_) => outs.push(json!({"pos": c, "hit": null, "actions": "panic", "asked": asked})),
            }
        }
        let latest: HashMap<String, Option<String>> = v["cache"]
            .as_object()
            .map(|m| m.keys().map(|k| (k.clone(), cache.get_latest_version(reg, k).ok().flatten())).collect())
            .unwrap_or_default();
        emit(json!({"fmt": fmt}), json!({"pkgs": pkgs.iter().map(pkg_json).collect::<Vec<_>>(), "cursors": outs, "latest": latest}));
    }
}
