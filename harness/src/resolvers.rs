//! C16: the wiring of create_default_resolvers(): for every registry type the
//! registry type its matcher and registry declare, and the registry types of the
//! packages its parser extracts from a sample manifest of that ecosystem.
use crate::detect::{ALL_REGISTRIES, reg_code};
use crate::{Args, emit};
use serde_json::json;
use version_lsp::lsp::resolver::create_default_resolvers;
use version_lsp::parser::types::RegistryType;

pub fn sample_doc(r: RegistryType) -> &'static str {
    match r {
        RegistryType::GitHubActions => "jobs:\n  build:\n    steps:\n      - uses: actions/checkout@v4\n",
        RegistryType::Npm => "{\n  \"dependencies\": {\n    \"lodash\": \"^4.17.0\"\n  }\n}\n",
        RegistryType::CratesIo => "[dependencies]\nserde = \"1.0\"\n",
        RegistryType::GoProxy => "module m\n\nrequire golang.org/x/text v0.14.0\n",
        RegistryType::PnpmCatalog => "catalog:\n  lodash: ^4.17.0\n",
        RegistryType::Jsr => "{\n  \"imports\": {\n    \"@std/path\": \"jsr:@std/path@^1.0.0\"\n  }\n}\n",
        RegistryType::PyPI => "[project]\ndependencies = [\n  \"requests>=2.0\"\n]\n",
    }
}

pub fn run(_args: &Args) {
    let resolvers = create_default_resolvers();
    for r in ALL_REGISTRIES {
        match resolvers.get(&r) {
            None => emit(json!({"key": reg_code(r)}), json!("missing")),
            Some(res) => {
                let parsed: Vec<u32> = res
                    .parser()
                    .parse(sample_doc(r))
                    .map(|ps| ps.iter().map(|p| reg_code(p.registry_type)).collect())
                    .unwrap_or_default();
                emit(
                    json!({"key": reg_code(r)}),
                    json!({"matcher": reg_code(res.matcher().registry_type()),
                           "registry": reg_code(res.registry().registry_type()),
                           "parsed": parsed}),
                );
            }
        }
    }
    emit(json!({"key": "count"}), json!(resolvers.len()));
}
