//! C01: the diagnostic for one dependency, computed by the real generate_diagnostics over a
//! real Cache filled by the given history.  stdin: one JSON case per line:
//!   {"eco": "...", "name": "...", "spec": "...", "ignore_pre": bool,
//!    "fills": [{"op":"store","vs":[..]} | {"op":"tags","m":[[k,v],..]} | {"op":"mark"}]}
use crate::matchers::matcher_for;
use crate::{Args, emit};
use serde_json::{Value, json};
use std::collections::HashMap;
use std::io::BufRead;
use std::panic::{AssertUnwindSafe, catch_unwind};
use tower_lsp::lsp_types::DiagnosticSeverity;
use version_lsp::lsp::diagnostics::generate_diagnostics;
use version_lsp::parser::traits::{ParseError, Parser};
use version_lsp::parser::types::{PackageInfo, RegistryType};
use version_lsp::version::cache::Cache;
use version_lsp::version::checker::VersionStorer;

pub struct OneDep(pub PackageInfo);
impl Parser for OneDep {
    fn parse(&self, _content: &str) -> Result<Vec<PackageInfo>, ParseError> {
        Ok(vec![self.0.clone()])
    }
}

pub fn eco_registry(eco: &str) -> RegistryType {
    match eco {
        "npm" => RegistryType::Npm,
        "pnpm" => RegistryType::PnpmCatalog,
        "jsr" => RegistryType::Jsr,
        "crates" => RegistryType::CratesIo,
        "go" => RegistryType::GoProxy,
        "gha" => RegistryType::GitHubActions,
        "pypi" => RegistryType::PyPI,
        _ => panic!("eco"),
    }
}

pub fn run(_args: &Args) {
    let stdin = std::io::stdin();
    for line in stdin.lock().lines() {
        let line = line.unwrap();
        if line.trim().is_empty() {
            continue;
        }
        let v: Value = serde_json::from_str(&line).expect("json case");
        let eco = v["eco"].as_str().unwrap().to_string();
        let name = v["name"].as_str().unwrap().to_string();
        let spec = v["spec"].as_str().unwrap().to_string();
        let ignore_pre = v["ignore_pre"].as_bool().unwrap();
        let reg = eco_registry(&eco);
        let dir = tempfile::TempDir::new().unwrap();
        let cache = Cache::new(&dir.path().join("versions.db"), 86_400_000, ignore_pre).unwrap();
        for f in v["fills"].as_array().unwrap() {
            match f["op"].as_str().unwrap() {
                "store" => {
                    let vs: Vec<String> = f["vs"].as_array().unwrap().iter().map(|x| x.as_str().unwrap().to_string()).collect();
                    cache.replace_versions(reg, &name, vs).unwrap();
                }
                "tags" => {
                    let mut m = HashMap::new();
                    for kv in f["m"].as_array().unwrap() {
                        m.insert(kv[0].as_str().unwrap().to_string(), kv[1].as_str().unwrap().to_string());
                    }
                    cache.save_dist_tags(reg, &name, &m).unwrap();
                }
                "mark" => cache.mark_not_found(reg, &name).unwrap(),
                _ => panic!("fill op"),
            }
        }
        let m = matcher_for(&eco);
        let dep = OneDep(PackageInfo {
            name: name.clone(), version: spec.clone(), commit_hash: None, registry_type: reg,
            start_offset: 0, end_offset: spec.len(), line: 0, column: 0, extra_info: None,
        });
        let r = catch_unwind(AssertUnwindSafe(|| {
            let ds = generate_diagnostics(&dep, m.as_ref(), &cache, "");
            let out: Vec<Value> = ds.iter().map(|d| {
                let sev = match d.severity { Some(DiagnosticSeverity::ERROR) => 1, Some(DiagnosticSeverity::WARNING) => 2, _ => 0 };
                json!([sev, d.message])
            }).collect();
            json!({"diags": out, "latest": cache.get_latest_version(reg, &name).ok().flatten()})
        }));
        match r {
            Ok(out) => emit(v, out),
            Err(_) => emit(v, json!("panic")),
        }
    }
}
