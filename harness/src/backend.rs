//! C13 / C14 / C18: the in-process LspService driven by a script, with gate-controlled
//! registries, answers to workspace/configuration, and the ordered client traffic.
//! stdin: one JSON script per line:
//!  {"registry": {"<pkg>": {"kind":"versions","vs":[..]} | {"kind":"not_found"} | {"kind":"invalid"}},
//!   "prefill": [{"name":..,"vs":[..]}], "no_store": bool, "config": <json answer> | "none" | "error",
//!   "steps": [{"op":"open"|"change","uri":..,"text":..[,"pre_texts":[..] (change: earlier full-text changes of the same notification)]} | {"op":"close","uri":..} | {"op":"reply","name":..} |
//!             {"op":"action","uri":..,"line":n,"character":n} | {"op":"config_answer"}]}
use crate::{Args, emit};
use futures::{SinkExt, StreamExt};
use serde_json::{Value, json};
use std::collections::HashMap;
use std::io::BufRead;
use std::sync::{Arc, Mutex};
use std::time::Duration;
use tokio::sync::Notify;
use tower::Service;
use tower_lsp::LspService;
use tower_lsp::jsonrpc::{Request, Response};
use tower_lsp::lsp_types::*;
use version_lsp::lsp::backend::Backend;
use version_lsp::lsp::diagnostics::generate_diagnostics;
use version_lsp::lsp::resolver::{PackageResolver, create_default_resolvers};
use version_lsp::parser::types::{RegistryType, detect_parser_type};
use version_lsp::version::cache::Cache;
use version_lsp::version::checker::VersionStorer;
use version_lsp::version::error::RegistryError;
use version_lsp::version::registry::Registry;
use version_lsp::version::types::PackageVersions;

pub struct GateRegistry {
    reg: RegistryType,
    outcomes: HashMap<String, Value>,
    gated: bool,
    waiting: Mutex<Vec<(String, Arc<Notify>)>>,
    pub log: Mutex<Vec<String>>,
}
#[async_trait::async_trait]
impl Registry for GateRegistry {
    fn registry_type(&self) -> RegistryType { self.reg }
    async fn fetch_all_versions(&self, name: &str) -> Result<PackageVersions, RegistryError> {
        self.log.lock().unwrap().push(name.to_string());
        if self.gated {
            let n = Arc::new(Notify::new());
            self.waiting.lock().unwrap().push((name.to_string(), n.clone()));
            n.notified().await;
        }
        match self.outcomes.get(name) {
            Some(o) if o["kind"] == "versions" => Ok(PackageVersions::new(o["vs"].as_array().unwrap().iter().map(|x| x.as_str().unwrap().to_string()).collect())),
            Some(o) if o["kind"] == "invalid" => Err(RegistryError::InvalidResponse("garbage".into())),
            _ => Err(RegistryError::NotFound(name.to_string())),
        }
    }
}
impl GateRegistry {
    fn release(&self, name: &str) -> bool {
        let mut w = self.waiting.lock().unwrap();
        if let Some(i) = w.iter().position(|(n, _)| n == name) {
            let (_, n) = w.remove(i);
            n.notify_one();
            true
        } else { false }
    }
    fn pending(&self) -> Vec<String> { self.waiting.lock().unwrap().iter().map(|(n, _)| n.clone()).collect() }
}

fn note(method: &str, params: Value) -> Request { Request::build(method.to_string()).params(params).finish() }

fn diag_json(ds: &[Diagnostic]) -> Value {
    json!(ds.iter().map(|d| json!([d.range.start.line, d.range.start.character, d.range.end.line, d.range.end.character,
        match d.severity { Some(DiagnosticSeverity::ERROR) => 1, Some(DiagnosticSeverity::WARNING) => 2, _ => 0 }, d.message])).collect::<Vec<_>>())
}

async fn settle() { tokio::time::sleep(Duration::from_millis(500)).await; }

pub fn run(_args: &Args) {
    let stdin = std::io::stdin();
    for line in stdin.lock().lines() {
        let line = line.unwrap();
        if line.trim().is_empty() { continue; }
        let script: Value = serde_json::from_str(&line).expect("json script");
        let rt = tokio::runtime::Builder::new_current_thread().enable_all().start_paused(true).build().unwrap();
        let out = rt.block_on(run_script(&script));
        emit(script, out);
    }
}

async fn run_script(script: &Value) -> Value {
    let dir = tempfile::TempDir::new().unwrap();
    let cache = Arc::new(Cache::new(&dir.path().join("versions.db"), 86_400_000, true).unwrap());
    // gate registries replace the real ones; parsers and matchers are the defaults
    let outcomes: HashMap<String, Value> = script["registry"].as_object().map(|m| m.iter().map(|(k, v)| (k.clone(), v.clone())).collect()).unwrap_or_default();
    let gated = script["gated"].as_bool().unwrap_or(true);
    let mut gates: HashMap<RegistryType, Arc<GateRegistry>> = HashMap::new();
    let mut resolvers: HashMap<RegistryType, PackageResolver> = HashMap::new();
    for (rt_, r) in create_default_resolvers() {
        let g = Arc::new(GateRegistry { reg: rt_, outcomes: outcomes.clone(), gated, waiting: Mutex::new(vec![]), log: Mutex::new(vec![]) });
        gates.insert(rt_, g.clone());
        resolvers.insert(rt_, PackageResolver::new(r.parser().clone(), r.matcher().clone(), g));
    }
    let parsers: HashMap<RegistryType, (Arc<dyn version_lsp::parser::traits::Parser>, Arc<dyn version_lsp::version::matcher::VersionMatcher>)> =
        resolvers.iter().map(|(k, v)| (*k, (v.parser().clone(), v.matcher().clone()))).collect();
    for p in script["prefill"].as_array().cloned().unwrap_or_default() {
        let reg: RegistryType = p["reg"].as_str().unwrap_or("npm").parse().unwrap();
        let vs = p["vs"].as_array().unwrap().iter().map(|x| x.as_str().unwrap().to_string()).collect();
        cache.replace_versions(reg, p["name"].as_str().unwrap(), vs).unwrap();
    }
    let no_store = script["no_store"].as_bool().unwrap_or(false);
    let c2 = cache.clone();
    let (mut service, socket) = if no_store {
        // the production constructor with an unusable data directory: XDG_DATA_HOME points at a regular file
        let bad = dir.path().join("not-a-dir");
        std::fs::write(&bad, b"x").unwrap();
        unsafe { std::env::set_var("XDG_DATA_HOME", &bad); }
        let (s, k) = LspService::build(Backend::new).finish();
        (ServiceKind::Prod(s), k)
    } else {
        let (s, k) = LspService::build(move |client| Backend::build(client, c2, resolvers)).finish();
        (ServiceKind::Test(s), k)
    };
    // client side: record traffic; answer workspace/configuration when the script says so
    let traffic: Arc<Mutex<Vec<Value>>> = Arc::new(Mutex::new(vec![]));
    let config_answer = script["config"].clone();
    let answer_now = Arc::new(Notify::new());
    let (mut stream, sink) = socket.split();
    let sink = Arc::new(tokio::sync::Mutex::new(sink));
    let t2 = traffic.clone();
    let an = answer_now.clone();
    tokio::spawn(async move {
        while let Some(req) = stream.next().await {
            let method = req.method().to_string();
            let params = req.params().cloned().unwrap_or(Value::Null);
            match method.as_str() {
                "textDocument/publishDiagnostics" => {
                    let p: PublishDiagnosticsParams = serde_json::from_value(params).unwrap();
                    t2.lock().unwrap().push(json!({"kind": "publish", "uri": p.uri.as_str(), "diags": diag_json(&p.diagnostics)}));
                }
                "window/showMessage" => {
                    t2.lock().unwrap().push(json!({"kind": "show", "type": params["type"], "message": params["message"]}));
                }
                "workspace/configuration" => {
                    t2.lock().unwrap().push(json!({"kind": "config_request"}));
                    if let Some(id) = req.id().cloned() {
                        if config_answer == json!("none") { continue; }
                        // answered from a task of its own, so that the traffic after the request keeps being read while the answer is held back
                        let (an, sink, config_answer) = (an.clone(), sink.clone(), config_answer.clone());
                        tokio::spawn(async move {
                            an.notified().await;
                            let resp = if config_answer == json!("error") {
                                Response::from_error(id, tower_lsp::jsonrpc::Error::method_not_found())
                            } else {
                                Response::from_ok(id, json!([config_answer.clone()]))
                            };
                            let _ = sink.lock().await.send(resp).await;
                        });
                    }
                }
                _ => {}
            }
        }
    });
    let init = Request::build("initialize").id(1).params(serde_json::to_value(InitializeParams::default()).unwrap()).finish();
    let _ = service.call(init).await;
    let _ = service.call(note("initialized", json!({}))).await;
    settle().await;
    let mut docs: HashMap<String, String> = HashMap::new();
    let mut obs = vec![];
    let mut next_id = 10;
    for st in script["steps"].as_array().unwrap() {
        let mark = traffic.lock().unwrap().len();
        let mut result = Value::Null;
        match st["op"].as_str().unwrap() {
            "open" => {
                let (u, t) = (st["uri"].as_str().unwrap(), st["text"].as_str().unwrap());
                docs.insert(u.to_string(), t.to_string());
                let _ = service.call(note("textDocument/didOpen", json!({"textDocument": {"uri": u, "languageId": "x", "version": 1, "text": t}}))).await;
            }
            "change" => {
                let (u, t) = (st["uri"].as_str().unwrap(), st["text"].as_str().unwrap());
                docs.insert(u.to_string(), t.to_string());
                // a notification may carry several full-text changes, applied in order: the last one is the document
                let mut changes: Vec<Value> = st["pre_texts"].as_array().map(|a| a.iter().map(|x| json!({"text": x})).collect()).unwrap_or_default();
                changes.push(json!({"text": t}));
                let _ = service.call(note("textDocument/didChange", json!({"textDocument": {"uri": u, "version": 2}, "contentChanges": changes}))).await;
            }
            "close" => {
                let u = st["uri"].as_str().unwrap();
                docs.remove(u);
                let _ = service.call(note("textDocument/didClose", json!({"textDocument": {"uri": u}}))).await;
            }
            "reply" => {
                let name = st["name"].as_str().unwrap();
                let mut ok = false;
                for g in gates.values() { if g.release(name) { ok = true; break; } }
                result = json!(ok);
            }
            "config_answer" => { answer_now.notify_one(); }
            "action" => {
                next_id += 1;
                let req = Request::build("textDocument/codeAction").id(next_id).params(json!({
                    "textDocument": {"uri": st["uri"]}, "range": {"start": {"line": st["line"], "character": st["character"]}, "end": {"line": st["line"], "character": st["character"]}},
                    "context": {"diagnostics": []}})).finish();
                let resp = service.call(req).await;
                result = match resp { Ok(Some(r)) => { let (_, res) = r.into_parts(); match res { Ok(v) => json!({"ok": v}), Err(e) => json!({"err": e.to_string()}) } } _ => json!("no-response") };
            }
            _ => panic!("step"),
        }
        settle().await;
        let new: Vec<Value> = traffic.lock().unwrap()[mark..].to_vec();
        // what the diagnostics of every open document would be if computed now from its current text and the current cache
        let mut expected = serde_json::Map::new();
        for (u, t) in &docs {
            if let Some(reg) = detect_parser_type(u) {
                if let Some((p, m)) = parsers.get(&reg) {
                    expected.insert(u.clone(), diag_json(&generate_diagnostics(&**p, &**m, &*cache, t)));
                }
            }
        }
        let pending: Vec<String> = gates.values().flat_map(|g| g.pending()).collect();
        obs.push(json!({"result": result, "traffic": new, "expected_now": expected, "pending": pending}));
    }
    let requested: Vec<String> = gates.values().flat_map(|g| g.log.lock().unwrap().clone()).collect();
    json!({"steps": obs, "requested": requested})
}

enum ServiceKind { Test(LspService<Backend<Cache>>), Prod(LspService<Backend<Cache>>) }
impl ServiceKind {
    async fn call(&mut self, r: Request) -> Result<Option<Response>, tower_lsp::ExitedError> {
        match self { ServiceKind::Test(s) | ServiceKind::Prod(s) => s.call(r).await }
    }
}
