//! C06: the whole per-document pipeline on arbitrary text - parse, diagnostics over a filled cache (so the matchers
//! see whatever spec strings the broken document yields), code actions at arbitrary cursors - each stage under
//! catch_unwind and a watchdog.  stdin: {"id", "fmt", "text", "versions": [...], "cursors": [[l,c],...]}
//! out: {"parse": "ok:<n>"|"panic"|"err", "diag": "ok:<n>"|"panic"|"skipped", "actions": "ok:<n>"|"panic", "ms": <elapsed>} or "hang"
use crate::matchers::matcher_for;
use crate::parsex::parser_for;
use crate::{Args, emit};
use serde_json::{Value, json};
use std::io::BufRead;
use std::panic::{AssertUnwindSafe, catch_unwind};
use std::sync::mpsc;
use tower_lsp::lsp_types::{Position, Url};
use version_lsp::lsp::code_action::{PackageIndex, generate_bump_code_actions};
use version_lsp::lsp::diagnostics::generate_diagnostics;
use version_lsp::parser::types::RegistryType;
use version_lsp::version::cache::Cache;
use version_lsp::version::checker::VersionStorer;

fn eco_of(fmt: &str) -> (&'static str, RegistryType) {
    match fmt {
        "package_json" => ("npm", RegistryType::Npm),
        "deno_json" => ("jsr", RegistryType::Jsr),
        "cargo_toml" => ("crates", RegistryType::CratesIo),
        "pyproject_toml" => ("pypi", RegistryType::PyPI),
        "pnpm_workspace" => ("pnpm", RegistryType::PnpmCatalog),
        "github_actions" => ("gha", RegistryType::GitHubActions),
        "go_mod" => ("go", RegistryType::GoProxy),
        _ => panic!("fmt"),
    }
}

fn one(v: &Value) -> Value {
    let fmt = v["fmt"].as_str().unwrap();
    let text = v["text"].as_str().unwrap();
    let (eco, reg) = eco_of(fmt);
    let parser = parser_for(fmt);
    let pkgs = match catch_unwind(AssertUnwindSafe(|| parser.parse(text))) {
        Ok(Ok(p)) => p,
        Ok(Err(_)) => return json!({"parse": "err", "diag": "skipped", "actions": "skipped"}),
        Err(_) => return json!({"parse": "panic", "diag": "skipped", "actions": "skipped"}),
    };
    let dir = tempfile::TempDir::new().unwrap();
    let cache = Cache::new(&dir.path().join("versions.db"), 86_400_000, true).unwrap();
    let versions: Vec<String> = v["versions"].as_array().map(|a| a.iter().map(|x| x.as_str().unwrap().to_string()).collect()).unwrap_or_default();
    for p in &pkgs {
        let _ = cache.replace_versions(reg, &p.name, versions.clone());
    }
    let matcher = matcher_for(eco);
    let diag = match catch_unwind(AssertUnwindSafe(|| generate_diagnostics(&*parser, &*matcher, &cache, text))) {
        Ok(d) => format!("ok:{}", d.len()),
        Err(_) => "panic".to_string(),
    };
    let uri = Url::parse("file:///w/doc").unwrap();
    let mut n_actions = 0;
    let mut act = "ok".to_string();
    for c in v["cursors"].as_array().unwrap() {
        let pos = Position { line: c[0].as_u64().unwrap() as u32, character: c[1].as_u64().unwrap() as u32 };
        match catch_unwind(AssertUnwindSafe(|| {
            let index = PackageIndex::new(&pkgs);
            index.find_at_position(pos).map(|p| generate_bump_code_actions(&cache, p, &uri).len()).unwrap_or(0)
        })) {
            Ok(n) => n_actions += n,
            Err(_) => {
                act = "panic".to_string();
                break;
            }
        }
    }
    json!({"parse": format!("ok:{}", pkgs.len()), "diag": diag, "actions": if act == "ok" { format!("ok:{}", n_actions) } else { act }})
}

pub fn run(args: &Args) {
    let limit_ms: u64 = args.opt("limit-ms").and_then(|s| s.parse().ok()).unwrap_or(15000);
    let stdin = std::io::stdin();
    for line in stdin.lock().lines() {
        let line = line.unwrap();
        if line.trim().is_empty() {
            continue;
        }
        let v: Value = serde_json::from_str(&line).expect("json");
        let id = v["id"].clone();
        let (tx, rx) = mpsc::channel();
        let t0 = std::time::Instant::now();
        let vv = v.clone();
        std::thread::Builder::new()
            .stack_size(64 << 20)
            .spawn(move || {
                let r = one(&vv);
                let _ = tx.send(r);
            })
            .unwrap();
        match rx.recv_timeout(std::time::Duration::from_millis(limit_ms)) {
            Ok(mut r) => {
                r["ms"] = json!(t0.elapsed().as_millis() as u64);
                emit(json!({"id": id}), r);
            }
            Err(_) => {
                emit(json!({"id": id}), json!("hang"));
                // the worker cannot be stopped: leave, the driver restarts after this case
                std::process::exit(3);
            }
        }
    }
}
