//! C18: the data-directory rule (child process with a controlled environment), damaged database
//! files, and a store that starts failing after a healthy start.
use crate::fetch::FaultStorer;
use crate::rng::Rng;
use crate::verdict::OneDep;
use crate::{Args, emit};
use serde_json::{Value, json};
use std::collections::HashSet;
use std::io::BufRead;
use std::panic::{AssertUnwindSafe, catch_unwind};
use std::sync::Mutex;
use version_lsp::lsp::diagnostics::generate_diagnostics;
use version_lsp::parser::package_json::PackageJsonParser;
use version_lsp::parser::types::RegistryType;
use version_lsp::version::cache::Cache;
use version_lsp::version::checker::VersionStorer;
use version_lsp::version::matchers::NpmVersionMatcher;

/// child: print the data dir / db path / log path the server would use under the current environment
pub fn run_datadir_child(_args: &Args) {
    println!("{}", json!({"data_dir": version_lsp::config::data_dir().to_string_lossy(),
                          "db_path": version_lsp::config::db_path().to_string_lossy(),
                          "log_path": version_lsp::config::log_path().to_string_lossy()}));
}

/// parent: stdin lines {"xdg": string|null, "home": string|null}
pub fn run_datadir(_args: &Args) {
    let stdin = std::io::stdin();
    for line in stdin.lock().lines() {
        let line = line.unwrap();
        if line.trim().is_empty() { continue; }
        let v: Value = serde_json::from_str(&line).unwrap();
        let mut cmd = std::process::Command::new(std::env::current_exe().unwrap());
        cmd.arg("datadir-child").env_remove("XDG_DATA_HOME").env_remove("HOME");
        if let Some(x) = v["xdg"].as_str() { cmd.env("XDG_DATA_HOME", x); }
        if let Some(h) = v["home"].as_str() { cmd.env("HOME", h); }
        let out = cmd.output().unwrap();
        let text = String::from_utf8_lossy(&out.stdout);
        let parsed: Value = text.lines().find(|l| l.starts_with('{')).and_then(|l| serde_json::from_str(l).ok()).unwrap_or(json!("failed"));
        emit(v, parsed);
    }
}

fn diag_list(cache: &dyn Fn(&str) -> Vec<Value>, text: &str) -> Vec<Value> { cache(text) }

fn manifest(deps: &[(String, String)]) -> String {
    let body: Vec<String> = deps.iter().map(|(n, v)| format!("    \"{n}\": \"{v}\"")).collect();
    format!("{{\n  \"dependencies\": {{\n{}\n  }}\n}}", body.join(",\n"))
}

fn diags_of<S: VersionStorer>(storer: &S, text: &str) -> Value {
    let r = catch_unwind(AssertUnwindSafe(|| {
        generate_diagnostics(&PackageJsonParser::new(), &NpmVersionMatcher, storer, text)
            .iter().map(|d| json!([d.range.start.line, d.range.start.character, d.range.end.character, d.message])).collect::<Vec<_>>()
    }));
    match r { Ok(v) => json!(v), Err(_) => json!("panic") }
}

fn strict_versions(path: &std::path::Path, name: &str) -> Result<Vec<String>, rusqlite::Error> {
    let conn = rusqlite::Connection::open_with_flags(path, rusqlite::OpenFlags::SQLITE_OPEN_READ_ONLY)?;
    let mut st = conn.prepare("SELECT v.version FROM versions v JOIN packages p ON v.package_id = p.id WHERE p.registry_type = 'npm' AND p.package_name = ?1")?;
    let vs = st.query_map([name], |r| r.get::<_, String>(0))?.collect::<Result<Vec<String>, _>>()?;
    Ok(vs)
}
fn strict_tags(path: &std::path::Path, name: &str) -> Result<std::collections::HashMap<String, String>, rusqlite::Error> {
    let conn = rusqlite::Connection::open_with_flags(path, rusqlite::OpenFlags::SQLITE_OPEN_READ_ONLY)?;
    let mut st = conn.prepare("SELECT dt.tag_name, dt.version FROM dist_tags dt JOIN packages p ON dt.package_id = p.id WHERE p.registry_type = 'npm' AND p.package_name = ?1")?;
    let tags = st.query_map([name], |r| Ok((r.get::<_, String>(0)?, r.get::<_, String>(1)?)))?.collect::<Result<std::collections::HashMap<String, String>, _>>()?;
    Ok(tags)
}

/// damaged database files: every damage pattern on a copy of a healthy multi-page database
pub fn run_damage(args: &Args) {
    let mut r = Rng::new(args.seed);
    let dir = tempfile::TempDir::new().unwrap();
    let good = dir.path().join("good.db");
    let big_n = 3000;
    let deps: Vec<(String, String)> = vec![("big".into(), "1.7.0".into()), ("small".into(), "1.0.0".into()), ("old".into(), "^0.9.0".into()), ("gone".into(), "2.0.0".into())];
    {
        let c = Cache::new(&good, 86_400_000, true).unwrap();
        c.replace_versions(RegistryType::Npm, "big", (0..big_n).map(|i| format!("1.{i}.0")).collect()).unwrap();
        c.replace_versions(RegistryType::Npm, "small", vec!["1.0.0".into(), "1.0.1".into()]).unwrap();
        c.replace_versions(RegistryType::Npm, "old", vec!["0.9.0".into(), "0.9.5".into(), "1.0.0".into()]).unwrap();
        c.replace_versions(RegistryType::Npm, "gone", vec!["1.0.0".into()]).unwrap();
        let mut tags = std::collections::HashMap::new();
        tags.insert("latest".to_string(), "1.0.1".to_string());
        c.save_dist_tags(RegistryType::Npm, "small", &tags).unwrap();
    }
    // make sure everything is in the main file
    { let conn = rusqlite::Connection::open(&good).unwrap(); let _ = conn.query_row("PRAGMA wal_checkpoint(TRUNCATE)", [], |_| Ok(())); }
    let text = manifest(&deps);
    let healthy = { let c = Cache::new(&good, 86_400_000, true).unwrap(); diags_of(&c, &text) };
    { let conn = rusqlite::Connection::open(&good).unwrap(); let _ = conn.query_row("PRAGMA wal_checkpoint(TRUNCATE)", [], |_| Ok(())); }
    let bytes = std::fs::read(&good).unwrap();
    let page = 4096usize;
    let npages = bytes.len() / page;
    let mut patterns: Vec<(String, Vec<u8>)> = vec![];
    for p in 0..=npages { patterns.push((format!("truncate at page {p}"), bytes[..(p * page).min(bytes.len())].to_vec())); }
    for p in 0..npages { let mut b = bytes.clone(); for x in &mut b[p * page..(p + 1) * page] { *x = 0; } patterns.push((format!("zero page {p}"), b)); }
    for p in 0..npages { let mut b = bytes.clone(); for (i, x) in b[p * page..(p + 1) * page].iter_mut().enumerate() { *x = (i * 31 + p) as u8; } patterns.push((format!("garbage page {p}"), b)); }
    for k in 0..args.n {
        let mut b = bytes.clone();
        let a = r.below(b.len());
        let len = 1 + r.below(3000);
        for x in &mut b[a..(a + len).min(bytes.len())] { *x = r.next() as u8; }
        patterns.push((format!("random overwrite #{k} at {a} len {len}"), b));
    }
    patterns.push(("text file".into(), b"this is not a database".to_vec()));
    for (name, content) in patterns {
        let path = dir.path().join("damaged.db");
        let _ = std::fs::remove_file(&path);
        let _ = std::fs::remove_file(dir.path().join("damaged.db-wal"));
        let _ = std::fs::remove_file(dir.path().join("damaged.db-shm"));
        std::fs::write(&path, &content).unwrap();
        let res = catch_unwind(AssertUnwindSafe(|| match Cache::new(&path, 86_400_000, true) {
            Ok(c) => {
                let got = diags_of(&c, &text);
                drop(c);
                // what the file really holds, read strictly (every error propagated) through an independent connection,
                // loaded into a fresh healthy cache: the diagnostics that ARE backed by readable data
                let rebuilt_dir = tempfile::TempDir::new().unwrap();
                let rebuilt = Cache::new(&rebuilt_dir.path().join("r.db"), 86_400_000, true).unwrap();
                let mut unreadable = vec![];
                let mut tag_failed = vec![];
                for (k, (name, _)) in deps.iter().enumerate() {
                    match strict_versions(&path, name) {
                        Ok(vs) => { if !vs.is_empty() { rebuilt.replace_versions(RegistryType::Npm, name, vs).unwrap(); } }
                        Err(_) => { unreadable.push(2 + k); continue; }
                    }
                    match strict_tags(&path, name) {
                        Ok(tags) => { if !tags.is_empty() { rebuilt.save_dist_tags(RegistryType::Npm, name, &tags).unwrap(); } }
                        Err(_) => tag_failed.push(2 + k),
                    }
                }
                json!({"opened": true, "diags": got, "backed_by_readable_data": diags_of(&rebuilt, &text), "unreadable_lines": unreadable, "tag_read_failed_lines": tag_failed})
            }
            Err(_) => json!({"opened": false}),
        }));
        let out = match res { Ok(v) => v, Err(_) => json!("panic") };
        emit(json!({"pattern": name, "healthy": healthy, "document": text}), out);
    }
    // a directory in place of the file, and a read-only directory
    let dpath = dir.path().join("asdir.db");
    std::fs::create_dir(&dpath).unwrap();
    emit(json!({"pattern": "directory in place of the file", "healthy": healthy, "document": text}),
         json!({"opened": Cache::new(&dpath, 86_400_000, true).is_ok()}));
}

/// a healthy cache whose reads start failing: a fault at each read site for each dependency
pub fn run_faultdiag(args: &Args) {
    let mut r = Rng::new(args.seed);
    for _ in 0..args.n {
        let dir = tempfile::TempDir::new().unwrap();
        let cache = Cache::new(&dir.path().join("v.db"), 86_400_000, true).unwrap();
        let names = ["a", "b", "c", "d"];
        let mut deps = vec![];
        for n in names {
            cache.replace_versions(RegistryType::Npm, n, vec!["1.0.0".into(), "1.1.0".into(), "2.0.0".into()]).unwrap();
            deps.push((n.to_string(), r.pick(&["1.0.0", "^1.0.0", "3.0.0", "junk", "^2.0.0", "latest"]).to_string()));
        }
        let text = manifest(&deps);
        let healthy = diags_of(&cache, &text);
        let mut fail = HashSet::new();
        let mut injected = vec![];
        for n in names {
            if r.chance(1, 2) {
                let site = *r.pick(&["latest", "tag", "versions"]);
                fail.insert((site.to_string(), n.to_string()));
                injected.push(json!([site, n]));
            }
        }
        let storer = FaultStorer { inner: cache, fail, filter_fails: false, calls: Mutex::new(vec![]) };
        let got = diags_of(&storer, &text);
        emit(json!({"document": text, "deps": deps, "faults": injected}), json!({"healthy": healthy, "got": got}));
    }
    let _ = OneDep;
    let _ = diag_list;
}

// ---------------------------------------------------------------------------------------------
// C18: the production entry point (lsp::server::run_server, what main() runs) in a child process with a
// controlled environment, talking LSP over its stdio.
pub fn run_server_child(_args: &Args) {
    let rt = tokio::runtime::Builder::new_multi_thread().enable_all().build().unwrap();
    let r = rt.block_on(version_lsp::lsp::server::run_server());
    if let Err(e) = r {
        eprintln!("run_server returned an error: {e}");
        std::process::exit(1);
    }
}

fn lsp_frame(v: &Value) -> Vec<u8> {
    let body = serde_json::to_vec(v).unwrap();
    let mut out = format!("Content-Length: {}\r\n\r\n", body.len()).into_bytes();
    out.extend_from_slice(&body);
    out
}

/// parent: stdin lines {"xdg": string|null, "home": string|null, "cwd": string|null}
pub fn run_server_parent(_args: &Args) {
    use std::io::{Read, Write};
    let stdin = std::io::stdin();
    for line in stdin.lock().lines() {
        let line = line.unwrap();
        if line.trim().is_empty() { continue; }
        let v: Value = serde_json::from_str(&line).unwrap();
        let mut cmd = std::process::Command::new(std::env::current_exe().unwrap());
        cmd.arg("server-child").env_remove("XDG_DATA_HOME").env_remove("HOME")
            .stdin(std::process::Stdio::piped()).stdout(std::process::Stdio::piped()).stderr(std::process::Stdio::piped());
        if let Some(x) = v["xdg"].as_str() { cmd.env("XDG_DATA_HOME", x); }
        if let Some(h) = v["home"].as_str() { cmd.env("HOME", h); }
        if let Some(c) = v["cwd"].as_str() { cmd.current_dir(c); }
        let mut child = cmd.spawn().unwrap();
        let mut cin = child.stdin.take().unwrap();
        let mut cout = child.stdout.take().unwrap();
        let (tx, rx) = std::sync::mpsc::channel::<Vec<u8>>();
        std::thread::spawn(move || {
            let mut buf = [0u8; 8192];
            loop {
                match cout.read(&mut buf) { Ok(0) | Err(_) => break, Ok(n) => { let _ = tx.send(buf[..n].to_vec()); } }
            }
        });
        let msgs = [
            json!({"jsonrpc": "2.0", "id": 1, "method": "initialize", "params": {"capabilities": {}}}),
            json!({"jsonrpc": "2.0", "method": "initialized", "params": {}}),
            json!({"jsonrpc": "2.0", "method": "textDocument/didOpen", "params": {"textDocument": {"uri": "file:///w/package.json", "languageId": "json", "version": 1,
                   "text": "{\n  \"dependencies\": {\n    \"lodash\": \"1.0.0\"\n  }\n}"}}}),
            json!({"jsonrpc": "2.0", "id": 2, "method": "textDocument/codeAction", "params": {"textDocument": {"uri": "file:///w/package.json"},
                   "range": {"start": {"line": 2, "character": 16}, "end": {"line": 2, "character": 16}}, "context": {"diagnostics": []}}}),
        ];
        let mut write_ok = true;
        for m in &msgs {
            if cin.write_all(&lsp_frame(m)).is_err() { write_ok = false; break; }
            let _ = cin.flush();
            std::thread::sleep(std::time::Duration::from_millis(150));
        }
        let mut got = Vec::new();
        // the handlers run concurrently: the answer to request 2 may overtake the warning / the publication of the didOpen
        // handler, so after the answer the output is drained until it has been quiet for a while (and for 8 s at most)
        let deadline = std::time::Instant::now() + std::time::Duration::from_millis(8000);
        let mut answered_at: Option<std::time::Instant> = None;
        while std::time::Instant::now() < deadline {
            match rx.recv_timeout(std::time::Duration::from_millis(200)) {
                Ok(b) => { got.extend_from_slice(&b); if answered_at.is_some() { answered_at = Some(std::time::Instant::now()); } }
                Err(_) => {}
            }
            let t = String::from_utf8_lossy(&got);
            if answered_at.is_none() && t.contains("\"id\":2") { answered_at = Some(std::time::Instant::now()); }
            if let Some(a) = answered_at {
                let settled = t.contains("Cache not available") || t.contains("window/showMessage") || t.contains("publishDiagnostics");
                if a.elapsed() >= std::time::Duration::from_millis(if settled { 300 } else { 1500 }) { break; }
            }
        }
        let text = String::from_utf8_lossy(&got).to_string();
        let alive = matches!(child.try_wait(), Ok(None));
        // orderly shutdown
        let _ = cin.write_all(&lsp_frame(&json!({"jsonrpc": "2.0", "id": 3, "method": "shutdown"})));
        let _ = cin.write_all(&lsp_frame(&json!({"jsonrpc": "2.0", "method": "exit"})));
        drop(cin);
        std::thread::sleep(std::time::Duration::from_millis(200));
        let status = match child.try_wait() { Ok(Some(s)) => json!(s.code()), _ => { let _ = child.kill(); let _ = child.wait(); json!("killed") } };
        let mut err = String::new();
        if let Some(mut e) = child.stderr.take() { let _ = e.read_to_string(&mut err); }
        emit(v, json!({"initialized": text.contains("\"id\":1") && text.contains("capabilities"), "answered_action": text.contains("\"id\":2"),
                       "warned": text.contains("Cache not available") || text.contains("window/showMessage"),
                       "published": text.contains("publishDiagnostics"), "update_msg": text.contains("Update available"), "alive_after_requests": alive, "write_ok": write_ok, "exit": status, "stderr": err.chars().take(300).collect::<String>()}));
    }
}
