//! C16: URIs -> detect_parser_type.
use crate::rng::Rng;
use crate::{Args, emit};
use serde_json::json;
use version_lsp::parser::types::{RegistryType, detect_parser_type};

pub fn reg_code(r: RegistryType) -> u32 {
    match r {
        RegistryType::GitHubActions => 0,
        RegistryType::Npm => 1,
        RegistryType::CratesIo => 2,
        RegistryType::GoProxy => 3,
        RegistryType::PnpmCatalog => 4,
        RegistryType::Jsr => 5,
        RegistryType::PyPI => 6,
    }
}

pub const ALL_REGISTRIES: [RegistryType; 7] = [
    RegistryType::GitHubActions,
    RegistryType::Npm,
    RegistryType::CratesIo,
    RegistryType::GoProxy,
    RegistryType::PnpmCatalog,
    RegistryType::Jsr,
    RegistryType::PyPI,
];

const NAMES: &[&str] = &[
    "package.json", "Cargo.toml", "go.mod", "pyproject.toml", "pnpm-workspace.yaml",
    "deno.json", "deno.jsonc", "ci.yml", "release.yaml", "action.yml", "x.txt", "ci.yml.bak",
    "workflow.yml", "Package.json", "cargo.toml", "go.mod.bak", "mypackage.json", "package.json5",
    "package.jsonc", "deno.jsonc2", "xdeno.json", "pnpm-workspace.yml", "go.sum", "",
    "ci.YML", "ci.yaml ", ".yml", ".yaml", "yml", "a.yml.", "README.md", "pyproject.toml~",
];
const DIRS: &[&str] = &[
    ".github", "workflows", "actions", "x.github", ".githubx", "github", ".github2", "src", "a b",
    "workflow", "xworkflows", "workflowsx", "é", "node_modules", "", ".", "..", "Workflows", ".GitHub",
    "my-action", "package.json", "go.mod", "C:", "xactions", "actionsx",
];
const PREFIX: &[&str] = &["", "/", "file:///", "file:///home/u/", "C:\\", "untitled:", "\\", "//", "./"];

fn gen_uri(r: &mut Rng) -> String {
    let mut s = String::new();
    s.push_str(*r.pick(PREFIX));
    let n = r.below(5);
    // usually one consistent separator, sometimes mixed
    let main_sep = if r.chance(3, 4) { '/' } else { '\\' };
    let mixed = r.chance(1, 6);
    for _ in 0..n {
        // bias towards the significant sequences
        let c = match r.below(10) {
            0..=2 => ".github",
            3 | 4 => "workflows",
            5 => "actions",
            _ => r.pick(DIRS),
        };
        s.push_str(c);
        let sep = if mixed && r.chance(1, 2) { if main_sep == '/' { '\\' } else { '/' } } else { main_sep };
        if !r.chance(1, 25) {
            s.push(sep);
        }
    }
    s.push_str(*r.pick(NAMES));
    if r.chance(1, 30) {
        s.push(main_sep);
    }
    s
}

pub fn corpus() -> Vec<String> {
    let mut v: Vec<String> = vec![
        ".github/workflows/ci.yml", ".github\\workflows\\ci.yml", ".github/actions/a/action.yml",
        ".github\\actions\\a\\action.yml", "/r/x.github/workflows/ci.yml", "x.github/workflows/ci.yml",
        "/r/.github/workflowsx/ci.yml", "/r/.github/workflows/ci.txt", "/r/.github/workflows/package.json",
        "/r/.github/workflows/pnpm-workspace.yaml", "/r/.github\\workflows/ci.yml", "/r/.github/workflows\\ci.yml",
        "package.json", "/package.json", "/mypackage.json", "/go.mod.bak", "/a/deno.jsonc", "/a/deno.json",
        "C:\\r\\package.json", "C:\\r\\.github\\workflows\\ci.yml", "/a/b/.github/workflows/", "/.github/workflows/.yml",
        "/a/.github/.github/workflows/x.yaml", "/a/.github/workflows", "", "/", ".yml", "é/.github/workflows/é.yml",
        "a.github/workflows/.github/workflows/b.yml", "/a\\.github/actions/b.yml",
    ].into_iter().map(String::from).collect();
    for n in NAMES {
        v.push(format!("/p/{n}"));
        v.push(format!("{n}"));
        v.push(format!("/p/.github/workflows/{n}"));
    }
    v
}

pub fn run(args: &Args) {
    let mut r = Rng::new(args.seed);
    let mut uris = corpus();
    while uris.len() < args.n {
        uris.push(gen_uri(&mut r));
    }
    for u in uris {
        let out = detect_parser_type(&u).map(reg_code);
        emit(json!(u), json!(out));
    }
}
