//! vlsp-harness: drives the real version-lsp code on generated inputs and prints
//! one JSON object per case ({"in": ..., "out": ...}) on stdout.
mod rng;
mod detect;
pub mod matchers;
mod semverx;
mod pypi;
mod resolvers;
mod cacheseq;
pub mod verdict;
mod cachesched;
mod cachefault;
pub mod fetch;
mod backend;
mod configx;
mod unusable;
mod registry;
pub mod parsex;
mod actionx;
mod robust;

use std::collections::HashMap;

pub struct Args {
    pub seed: u64,
    pub n: usize,
    pub opts: HashMap<String, String>,
}

impl Args {
    pub fn opt(&self, k: &str) -> Option<&str> {
        self.opts.get(k).map(|s| s.as_str())
    }
}

fn main() {
    let argv: Vec<String> = std::env::args().collect();
    if argv.len() < 2 {
        eprintln!("usage: vlsp-harness <stream> [--seed N] [--n N] [--key value]...");
        std::process::exit(2);
    }
    let mut args = Args { seed: 1, n: 100, opts: HashMap::new() };
    let mut i = 2;
    while i < argv.len() {
        let k = argv[i].trim_start_matches("--").to_string();
        let v = argv.get(i + 1).cloned().unwrap_or_default();
        match k.as_str() {
            "seed" => args.seed = v.parse().expect("seed"),
            "n" => args.n = v.parse().expect("n"),
            _ => {
                args.opts.insert(k, v);
            }
        }
        i += 2;
    }
    // panics inside the code under test are outcomes, not harness failures
    std::panic::set_hook(Box::new(|_| {}));
    match argv[1].as_str() {
        "detect" => detect::run(&args),
        "matchers" => matchers::run(&args),
        "semver" => semverx::run(&args),
        "pypi" => pypi::run(&args),
        "resolvers" => resolvers::run(&args),
        "cache-seq" => cacheseq::run(&args),
        "verdict" => verdict::run(&args),
        "cache-sched" => cachesched::run(&args),
        "cache-fault" => cachefault::run_fault(&args),
        "crash-child" => cachefault::run_child(&args),
        "migrate" => cachefault::run_migrate(&args),
        "fetch" => fetch::run(&args),
        "backend" => backend::run(&args),
        "config" => configx::run(&args),
        "datadir" => unusable::run_datadir(&args),
        "datadir-child" => unusable::run_datadir_child(&args),
        "damage" => unusable::run_damage(&args),
        "server" => unusable::run_server_parent(&args),
        "server-child" => unusable::run_server_child(&args),
        "faultdiag" => unusable::run_faultdiag(&args),
        "registry" => registry::run(&args),
        "parse" => parsex::run(&args),
        "action" => actionx::run(&args),
        "robust" => robust::run(&args),
        other => {
            eprintln!("unknown stream {other}");
            std::process::exit(2);
        }
    }
}

pub fn emit(input: serde_json::Value, output: serde_json::Value) {
    println!("{}", serde_json::json!({"in": input, "out": output}));
}
